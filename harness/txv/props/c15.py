"""C15 — WideFifo behaves as a bounded queue with batched operations (transactron/lib/fifo.py:149-356)."""

from __future__ import annotations

import itertools

from ..common import Check
from ..lockstep import Case, lockstep
from ..simrun import CompSim

META = {
    "id": "C15",
    "design_ref": "DESIGN.md §7 C15",
    "technique": "Lean 4 refinement proof: a hand-written step model of WideFifo (row/column pointers, level, "
    "per-column memories with transparent synchronous read ports, rotate_vec/rotate_left data path, mod_incr, "
    "validate_arguments with count/max_count) refines a plain List queue with batched read/peek/write/clear; "
    "lock-step correspondence of that model with the real component in pysim",
    "level_text": "c15_refines (simulation of the list-queue spec by the full data-path model, outputs included) and its "
    "corollaries c15_read/c15_peek/c15_write/c15_write_accept/c15_clear/c15_order are proved for every depth >= 1, "
    "read_width, write_width (not both 0) with max(read_width, write_width) dividing depth, both write_max_count settings and "
    "every call history whose write arguments are well-formed (count <= write_width, count <= max_count); the model is "
    "tied to the code by cycle-exact comparison of done bits, returned count and all read_width data words (including "
    "the don't-care ones), ready bits and both pointer registers",
    "level_note": "trusted: Lean kernel, axioms propext/Quot.sound/Classical.choice; Amaranth semantics (Memory ports with "
    "transparent_for, bit_select beyond the operand, truncation on assignment) and pysim; the harness glue "
    "(flattening of the count/data structs). Environment hypotheses of the theorems: count <= write_width (the "
    "layout's range) and count <= max_count (asserted by the component); outside them model and code are still "
    "compared (malformed stream) but nothing is claimed. The TransactionManager wiring of four conflict-free "
    "methods is modelled, not verified here (C01-C05).",
}

DW_DEFAULT = 8

_sims: dict[tuple, object] = {}


def _bits_for(n: int) -> int:
    return n.bit_length()


def _sim(depth: int, rw: int, ww: int, mx: int, dw: int):
    key = (depth, rw, ww, mx, dw)
    if key not in _sims:
        from transactron.lib.fifo import WideFifo

        try:
            _sims[key] = CompSim(lambda: WideFifo(dw, depth, rw, ww, write_max_count=bool(mx)))
        except (ValueError, ZeroDivisionError, AssertionError) as e:
            _sims[key] = f"raise {type(e).__name__}"
    return _sims[key]


def _lst(xs) -> str:
    return ",".join(map(str, xs)) if xs else "-"


def _ints(s: str) -> list[int]:
    return [] if s in ("-", "") else [int(x) for x in s.split(",")]


def _parse_cfg(cfg: str) -> dict:
    return {k: int(v) for k, v in (x.split("=") for x in cfg.split()[1:])}


def _parse_op(op: str) -> dict:
    t = dict(x.split("=") for x in op.split()[1:])
    r = None if t["r"] == "-" else int(t["r"])
    w = None
    if t["w"] != "-":
        a, b, d = t["w"].split(":")
        w = (int(a), int(b), _ints(d))
    return {"r": r, "p": int(t["p"]), "w": w, "c": int(t["c"])}


def _decode(v: int, rw: int, dw: int) -> tuple[int, list[int]]:
    cb = _bits_for(rw)
    cnt = v & ((1 << cb) - 1)
    v >>= cb
    return cnt, [(v >> (dw * k)) & ((1 << dw) - 1) for k in range(rw)]


def impl(case: Case) -> list[str]:
    cfg = _parse_cfg(case.cfg)
    depth, rw, ww, mx, dw = cfg["depth"], cfg["rw"], cfg["ww"], cfg["max"], cfg["dw"]
    sim = _sim(depth, rw, ww, mx, dw)
    if isinstance(sim, str):
        return [sim] + ["bad-op"] * len(case.ops)
    ops = []
    for line in case.ops:
        o = _parse_op(line)
        op: dict = {"read": None, "peek": None, "write": None, "clear": None}
        if o["r"] is not None:
            op["read"] = {"count": o["r"]}
        if o["p"]:
            op["peek"] = 0
        if o["w"] is not None:
            cnt, m, d = o["w"]
            op["write"] = {"count": cnt, "data": d, **({"max_count": m} if mx else {})}
        if o["c"]:
            op["clear"] = 0
        ops.append(op)
    tr = sim.run(
        ops,
        extra=lambda d: [d.read.ready, d.peek.ready, d.write.ready, d.read_idx.row, d.read_idx.col, d.write_idx.row, d.write_idx.col],
    )
    out = ["ok"]
    for r in tr:
        e = r["_extra"]

        def res(p):
            v = r[(p,)]
            if v is None:
                return "-"
            cnt, data = _decode(v, rw, dw)
            return f"{cnt}:{_lst(data)}"

        b = lambda p: 0 if r[(p,)] is None else 1  # noqa: E731
        out.append(f"r={res('read')} p={res('peek')} w={b('write')} c={b('clear')} rdy={e[0]}{e[1]}{e[2]} ri={e[3]}.{e[4]} wi={e[5]}.{e[6]}")
    return out


def _parse_out(o: str) -> dict:
    f = dict(x.split("=") for x in o.split())

    def res(v):
        if v == "-":
            return None
        c, d = v.split(":")
        return int(c), _ints(d)

    return {"r": res(f["r"]), "p": res(f["p"]), "w": f["w"] == "1", "c": f["c"] == "1", "rdy": f["rdy"], "ri": f["ri"], "wi": f["wi"]}


def monitor(case: Case, out: list[str]):
    """The property sentence, clause by clause, against a plain Python list; implementation observations only."""
    cfg = _parse_cfg(case.cfg)
    depth, rw, mx = cfg["depth"], cfg["rw"], cfg["max"]
    if out[0] != "ok":
        return None  # rejected configuration: nothing to check
    q: list[int] = []
    for k, (op, o) in enumerate(zip(case.ops, out[1:])):
        i = _parse_op(op)
        f = _parse_out(o)
        level, remaining = len(q), depth - len(q)
        # readiness: read/peek need a non-empty queue, write is ready only when space remains
        want = f"{int(level > 0)}{int(level > 0)}{int(remaining > 0)}"
        if f["rdy"] != want:
            return f"cycle {k}: ready bits read/peek/write = {f['rdy']}, queue holds {level} of {depth} (expected {want})"
        # read(count) removes and returns the min(count, level, read_width) oldest elements
        n = 0
        if (f["r"] is not None) != (i["r"] is not None and level > 0):
            return f"cycle {k}: read attempted={i['r']} executed={f['r']} with {level} elements queued"
        if f["r"] is not None:
            n = min(i["r"], level, rw)
            cnt, data = f["r"]
            if cnt != n or data[:n] != q[:n]:
                return f"cycle {k}: read({i['r']}) returned count={cnt} data={data}, the {n} oldest elements are {q[:n]}"
        # peek returns the same elements without removing them
        if (f["p"] is not None) != (bool(i["p"]) and level > 0):
            return f"cycle {k}: peek attempted={i['p']} executed={f['p']} with {level} elements queued"
        if f["p"] is not None:
            m = min(level, rw)
            cnt, data = f["p"]
            if cnt != m or data[:m] != q[:m]:
                return f"cycle {k}: peek returned count={cnt} data={data}, the {m} oldest elements are {q[:m]}"
        # write accepts a call only if it fits (count, or max_count when configured) and space remains
        fits = False
        if i["w"] is not None:
            cnt, m, data = i["w"]
            fits = remaining != 0 and (m if mx else cnt) <= remaining
        if f["w"] != fits:
            return f"cycle {k}: write {i['w']} executed={int(f['w'])} with {remaining} free slots (max_count configured: {mx})"
        if f["c"] != bool(i["c"]):
            return f"cycle {k}: clear attempted={i['c']} executed={int(f['c'])}"
        # effect on the queue: removed first, then write(count) appends the first count data elements, clear empties
        q = q[n:]
        if f["w"]:
            cnt, m, data = i["w"]
            q = q + data[:cnt]
        if f["c"]:
            q = []
        if len(q) > depth:
            return f"cycle {k}: queue would hold {len(q)} > depth {depth} elements"
    return None


# ------------------------------------------------------------------------------------------ generators
def _cfg_line(depth, rw, ww, mx, dw=DW_DEFAULT) -> str:
    return f"cfg depth={depth} rw={rw} ww={ww} max={mx} dw={dw}"


def _op_line(r, p, w, c) -> str:
    ws = "-" if w is None else f"{w[0]}:{w[1]}:{_lst(w[2])}"
    return f"cyc r={'-' if r is None else r} p={int(p)} w={ws} c={int(c)}"


def _mk(cfgt, ops, tag, wellformed=True) -> Case:
    depth, rw, ww, mx, dw = cfgt
    return Case(
        _cfg_line(depth, rw, ww, mx, dw),
        [_op_line(*o) for o in ops],
        {"component": "WideFifo", "depth": depth, "rw": rw, "ww": ww, "max": mx, "dw": dw, "wellformed": wellformed},
        tag,
    )


class _Data:
    """distinct data words (mod 2^dw) so that any misplaced element is visible"""

    def __init__(self, dw, start=1):
        self.dw = dw
        self.n = start

    def take(self, k):
        out = [(self.n + j) % (1 << self.dw) for j in range(k)]
        self.n += k
        return out


def _rand_ops(rng, cfgt, n, pr, pp, pw, pc, small_counts=False, malformed=False):
    depth, rw, ww, mx, dw = cfgt
    d = _Data(dw, rng.randrange(1 << dw))
    rmax = (1 << _bits_for(rw)) - 1  # every representable read count (clamped by the circuit)
    wmax = (1 << _bits_for(ww)) - 1
    ops = []
    for _ in range(n):
        r = None
        if rng.random() < pr:
            r = rng.randint(0, rmax) if rng.random() < 0.3 else rng.randint(0 if rng.random() < 0.1 else min(1, rw), rw)
            if small_counts:
                r = min(r, 1 + (rng.random() < 0.3))
        w = None
        if rng.random() < pw:
            cnt = rng.randint(0 if rng.random() < 0.1 else min(1, ww), ww)
            if small_counts and rng.random() < 0.7:
                cnt = min(cnt, 1)
            m = rng.randint(cnt, ww) if mx else 0
            if malformed and rng.random() < 0.3:
                cnt = rng.randint(0, wmax)
                m = rng.randint(0, wmax) if mx else 0
            w = (cnt, m, d.take(ww))
        ops.append((r, rng.random() < pp, w, rng.random() < pc))
    return ops


def _directed(cfgt):
    """fill to full (and beyond), simultaneous read/write at full and empty, drain (and beyond), wrap-around at
    every column offset, clear together with everything"""
    depth, rw, ww, mx, dw = cfgt
    d = _Data(dw)
    one = min(1, ww)

    def W(c, m=None):
        c = min(c, ww)
        return (c, (ww if m is None else max(c, min(m, ww))) if mx else 0, d.take(ww))

    ops = []
    for k in range(depth // max(ww, 1) + 2):
        ops.append((rw, True, W(ww), False) if k == 1 else (None, True, W(ww), False))
    ops += [(None, False, W(one, 1), False) for _ in range(ww + 1)]  # top up one by one until really full
    ops += [(rw, True, W(ww), False), (1, True, W(one, 1), False), (1, True, W(ww, ww), False)]
    for _ in range(depth // max(rw, 1) + 2):
        ops.append((rw, True, None, False))
    ops += [(rw, True, W(ww), False), (rw, True, W(one, 1), False)]
    # walk the pointers through every column offset: write k, read k
    for k in list(range(1, ww + 1)) + [1] * (max(rw, ww) + 1):
        ops.append((None, False, W(k, k), False))
        ops.append((min(k, rw), True, None, False))
        ops.append((rw, True, None, False))
    ops += [(None, False, W(ww), False), (rw, True, W(ww), True), (rw, True, W(one, 1), False), (min(1, rw), True, None, False)]
    ops += [(None, False, W(one, 1), False), (None, False, None, True), (min(1, rw), True, W(ww), False), (rw, True, None, False)]
    return ops


QUICK_CONFIGS = [
    (1, 1, 1), (2, 1, 1), (4, 1, 1), (5, 1, 1), (4, 2, 2), (10, 2, 2), (3, 3, 3), (8, 8, 8),  # rw = ww, rows 1..5
    (2, 1, 2), (6, 2, 3), (8, 1, 4), (10, 2, 5), (24, 3, 8),  # rw < ww
    (6, 2, 1), (6, 3, 2), (9, 3, 1), (12, 4, 3), (15, 5, 3),  # rw > ww
    (4, 0, 2), (2, 2, 0),  # degenerate widths 0 are accepted by the code
]  # (depth, rw, ww): 1..5 rows, powers of two and not


def _configs(ctx: Check):
    if ctx.quick:
        return list(QUICK_CONFIGS)
    out = set(QUICK_CONFIGS)
    for rw in range(1, 9):
        for ww in range(1, 9):
            c = max(rw, ww)
            for rows in (1, 2, 3) + ((5,) if (rw + ww) % 3 == 0 else ()):
                out.add((c * rows, rw, ww))
    out |= {(64, 8, 8), (60, 6, 5), (33, 11, 4), (32, 1, 16), (26, 13, 13)}
    return sorted(out)


REGIMES = [(0.3, 0.3, 0.9, 0.01), (0.9, 0.5, 0.3, 0.01), (0.6, 0.5, 0.6, 0.03), (1.0, 1.0, 1.0, 0.0), (0.5, 0.2, 0.5, 0.15)]


def gen_cases(ctx: Check):
    """per configuration: the directed history, random histories in different attempt-probability regimes, and (for
    a third of them) a malformed history.  `write_max_count` alternates *within* every run: inside each class
    (rw = ww, rw < ww, rw > ww) consecutive configurations get opposite settings (the seed only flips which one
    starts), the configurations of depth <= 2 get both, and the corpus holds max_count witnesses - so every run
    exercises both settings in every class.  Data width is 6 bits except for a few 1-bit and 33-bit instances."""
    rng = ctx.rng("gen")
    cases, malformed = [], []
    in_class = {0: 0, 1: 0, 2: 0}
    for k, (depth, rw, ww) in enumerate(_configs(ctx)):
        n = ctx.pick(80 if max(rw, ww) <= 4 else 50, 200)  # wide instances simulate 3-5x slower
        cls = 0 if rw == ww else (1 if rw < ww else 2)
        j = in_class[cls]
        in_class[cls] += 1
        mxs = (0, 1) if (depth <= 2 or ctx.thorough and (depth <= 4 or k % 4 == 0)) else ((j + ctx.seed) % 2,)
        for mx in mxs:
            dw = 6 if (k + mx) % 7 else (1 if k % 2 else 33)
            cfgt = (depth, rw, ww, mx, dw)
            cases.append(_mk(cfgt, _directed(cfgt), "directed"))
            regs = [REGIMES[(k + mx + j) % len(REGIMES)] for j in range(ctx.pick(2, 3))]
            for j, (pr, pp, pw, pc) in enumerate(regs):
                cases.append(_mk(cfgt, _rand_ops(rng, cfgt, n, pr, pp, pw, pc, small_counts=(j % 2 == 1 and rng.random() < 0.5)), "random"))
            if (k + mx) % 3 == 0:
                malformed.append(_mk(cfgt, _rand_ops(rng, cfgt, n, 0.5, 0.3, 0.7, 0.03, malformed=True), "malformed", wellformed=False))
    return cases, malformed


def gen_exhaustive(ctx: Check):
    """thorough: every input sequence of length L over an op alphabet (read count x write count x clear, peek always
    attempted) on the smallest configurations"""
    cases = []
    for k, (depth, rw, ww, L) in enumerate([(1, 1, 1, 3), (2, 1, 1, 3), (2, 2, 2, 3), (2, 1, 2, 3), (2, 2, 1, 3), (4, 2, 2, 3), (3, 3, 2, 3)]):
        mx = (k + ctx.seed) % 2
        cfgt = (depth, rw, ww, mx, 4)
        alpha = [(r, wc, c) for r in [None] + list(range(0, rw + 1)) for wc in [None] + list(range(0, ww + 1)) for c in (False, True)]
        if len(alpha) ** L > 6000:
            alpha = [a for a in alpha if a[0] != 0 and a[1] != 0]
        if len(alpha) ** L > 6000:
            alpha = [a for a in alpha if not (a[2] and (a[0] is None or a[1] is None))]
        for seq in itertools.product(alpha, repeat=L):
            d = _Data(4)
            ops = [(r, True, None if wc is None else (wc, ww if mx else 0, d.take(ww)), c) for r, wc, c in seq]
            cases.append(_mk(cfgt, ops, "exhaustive"))
    return cases


def rejected_configs():
    """arguments the component refuses (depth not a multiple of max(rw, ww): ValueError; both widths 0:
    ZeroDivisionError; depth 0: AssertionError of mod_incr at elaboration); the model must refuse them too"""
    return [Case(_cfg_line(d, r, w, 0), [], {"component": "WideFifo", "depth": d, "rw": r, "ww": w, "max": 0}, "directed")
            for d, r, w in [(5, 2, 2), (7, 3, 2), (4, 3, 1), (2, 4, 1), (3, 0, 0), (0, 1, 1), (0, 2, 3)]]


def more_cases(case: Case, rng):
    d = case.desc
    cfgt = (d["depth"], d["rw"], d["ww"], d["max"], d.get("dw", DW_DEFAULT))
    yield _mk(cfgt, _directed(cfgt), "search")
    for k in range(40):
        pr, pp, pw, pc = REGIMES[k % len(REGIMES)]
        yield _mk(cfgt, _rand_ops(rng, cfgt, 200, pr, pp, pw, pc, small_counts=k % 3 == 0), "search")


def nontrivial(case: Case, out: list[str]) -> bool:
    """full and empty both reached, a read and a write executed in the same cycle, and a pointer wrapped"""
    if out[0] != "ok":
        return False
    full = any(" rdy=110" in o for o in out[1:])
    nonempty_then_empty = any(" rdy=001" in o for o in out[2:])
    both = any(not o.startswith("r=- ") and " w=1 " in o for o in out[1:])
    rows = [int(o.split(" ri=")[1].split(".")[0]) for o in out[1:]]
    cols = [int(o.split(" ri=")[1].split(" ")[0].split(".")[1]) for o in out[1:]]
    wrapped = any(a > b for a, b in zip(rows, rows[1:])) or any(a > b for a, b in zip(cols, cols[1:]))
    return full and nonempty_then_empty and both and wrapped


# ------------------------------------------------------------------------------------------ two callers per method
# `read` and `write` are exclusive methods: of two transactions calling them in the same cycle at most one may
# execute (a method accidentally declared nonexclusive would let both through, invisibly to a single caller).
_msims: dict[tuple, object] = {}


def _msim(depth: int, rw: int, ww: int, mx: int, dw: int):
    """the real WideFifo inside a wrapper that exposes read / peek / write twice (two AdapterTrans, i.e. two
    independent transactions, on the same real method), plus the static order of the two callers as probed on
    the real scheduler"""
    key = (depth, rw, ww, mx, dw)
    if key not in _msims:
        from amaranth import Elaboratable
        from transactron import TModule
        from transactron.lib.fifo import WideFifo

        class TwoCallers(Elaboratable):
            def __init__(self):
                self.inner = inner = WideFifo(dw, depth, rw, ww, write_max_count=bool(mx))
                self.read = [inner.read] * 2
                self.peek = [inner.peek] * 2
                self.write = [inner.write] * 2
                self.clear = inner.clear

            def elaborate(self, platform):
                m = TModule()
                m.submodules.inner = self.inner
                return m

        sim = CompSim(TwoCallers)
        warg = {"count": min(1, ww), "data": [1] * ww, **({"max_count": min(1, ww)} if mx else {})}
        tr = sim.run([{"write[0]": warg, "write[1]": warg}, {"read[0]": {"count": 0}, "read[1]": {"count": 0}}])
        sim.wo = 1 if (tr[0][("write", 1)] is not None and tr[0][("write", 0)] is None) else 0
        sim.ro = 1 if (tr[1][("read", 1)] is not None and tr[1][("read", 0)] is None) else 0
        _msims[key] = sim
    return _msims[key]


def _parse_mop(op: str) -> dict:
    t = dict(x.split("=") for x in op.split()[1:])

    def w(v):
        if v == "-":
            return None
        a, b, d = v.split(":")
        return (int(a), int(b), _ints(d))

    return {
        "r": [None if v == "-" else int(v) for v in t["r"].split("/")],
        "p": [int(v) for v in t["p"].split("/")],
        "w": [w(v) for v in t["w"].split("/")],
        "c": int(t["c"]),
    }


def impl_multi(case: Case) -> list[str]:
    cfg = _parse_cfg(case.cfg)
    depth, rw, ww, mx, dw = cfg["depth"], cfg["rw"], cfg["ww"], cfg["max"], cfg["dw"]
    sim = _msim(depth, rw, ww, mx, dw)
    ops = []
    for line in case.ops:
        o = _parse_mop(line)
        op: dict = {"clear": 0 if o["c"] else None}
        for k in (0, 1):
            op[f"read[{k}]"] = None if o["r"][k] is None else {"count": o["r"][k]}
            op[f"peek[{k}]"] = 0 if o["p"][k] else None
            op[f"write[{k}]"] = None
            if o["w"][k] is not None:
                cnt, m, d = o["w"][k]
                op[f"write[{k}]"] = {"count": cnt, "data": d, **({"max_count": m} if mx else {})}
        ops.append(op)
    tr = sim.run(
        ops,
        extra=lambda d: [d.inner.read.ready, d.inner.peek.ready, d.inner.write.ready, d.inner.read_idx.row, d.inner.read_idx.col,
                         d.inner.write_idx.row, d.inner.write_idx.col],
    )
    out = ["ok"]
    for r in tr:
        e = r["_extra"]

        def res(p, k):
            v = r[(p, k)]
            if v is None:
                return "-"
            cnt, data = _decode(v, rw, dw)
            return f"{cnt}:{_lst(data)}"

        b = lambda p, k: 0 if r[(p, k)] is None else 1  # noqa: E731
        out.append(
            f"r={res('read', 0)}/{res('read', 1)} p={res('peek', 0)}/{res('peek', 1)} w={b('write', 0)}/{b('write', 1)} "
            f"c={0 if r[('clear',)] is None else 1} rdy={e[0]}{e[1]}{e[2]} ri={e[3]}.{e[4]} wi={e[5]}.{e[6]}"
        )
    return out


def monitor_multi(case: Case, out: list[str]):
    """exclusive methods serve at most one caller per cycle, and the property sentence holds on the union of the
    executed calls (which caller wins is not the property's business)"""
    cfg = _parse_cfg(case.cfg)
    depth, rw, mx = cfg["depth"], cfg["rw"], cfg["max"]
    q: list[int] = []

    def res(v):
        if v == "-":
            return None
        c, d = v.split(":")
        return int(c), _ints(d)

    for k, (op, o) in enumerate(zip(case.ops, out[1:])):
        i = _parse_mop(op)
        f = dict(x.split("=") for x in o.split())
        fr = [res(v) for v in f["r"].split("/")]
        fp = [res(v) for v in f["p"].split("/")]
        fw = [v == "1" for v in f["w"].split("/")]
        level, remaining = len(q), depth - len(q)
        want = f"{int(level > 0)}{int(level > 0)}{int(remaining > 0)}"
        if f["rdy"] != want:
            return f"cycle {k}: ready bits read/peek/write = {f['rdy']}, queue holds {level} of {depth} (expected {want})"
        ex = [c for c in (0, 1) if fr[c] is not None]
        if len(ex) > 1:
            return f"cycle {k}: both callers of the exclusive method read executed in the same cycle ({fr})"
        if any(i["r"][c] is None for c in ex):
            return f"cycle {k}: read executed for a caller that did not call it"
        if bool(ex) != (any(r is not None for r in i["r"]) and level > 0):
            return f"cycle {k}: read attempted={i['r']} executed={fr} with {level} elements queued"
        n = 0
        if ex:
            n = min(i["r"][ex[0]], level, rw)
            cnt, data = fr[ex[0]]
            if cnt != n or data[:n] != q[:n]:
                return f"cycle {k}: read({i['r'][ex[0]]}) returned count={cnt} data={data}, the {n} oldest elements are {q[:n]}"
        for c in (0, 1):
            if (fp[c] is not None) != (bool(i["p"][c]) and level > 0):
                return f"cycle {k}: peek caller {c} attempted={i['p'][c]} executed={fp[c]} with {level} elements queued"
            if fp[c] is not None:
                m = min(level, rw)
                cnt, data = fp[c]
                if cnt != m or data[:m] != q[:m]:
                    return f"cycle {k}: peek returned count={cnt} data={data}, the {m} oldest elements are {q[:m]}"
        fits = [w is not None and remaining != 0 and (w[1] if mx else w[0]) <= remaining for w in i["w"]]
        wx = [c for c in (0, 1) if fw[c]]
        if len(wx) > 1:
            return f"cycle {k}: both callers of the exclusive method write executed in the same cycle"
        if any(not fits[c] for c in wx) or (not wx and any(fits)):
            return f"cycle {k}: writes {i['w']} executed={fw} with {remaining} free slots (max_count configured: {mx})"
        if (f["c"] == "1") != bool(i["c"]):
            return f"cycle {k}: clear attempted={i['c']} executed={f['c']}"
        q = q[n:]
        if wx:
            cnt, m, data = i["w"][wx[0]]
            q = q + data[:cnt]
        if f["c"] == "1":
            q = []
        if len(q) > depth:
            return f"cycle {k}: queue would hold {len(q)} > depth {depth} elements"
    return None


def _mk_multi(cfgt, n, rng, regime) -> Case:
    depth, rw, ww, mx, dw = cfgt
    sim = _msim(*cfgt)
    a = _rand_ops(rng, cfgt, n, *regime)
    b = _rand_ops(rng, cfgt, n, *regime)
    lines = []
    for (r0, p0, w0, c0), (r1, p1, w1, _) in zip(a, b):
        ws = "/".join("-" if w is None else f"{w[0]}:{w[1]}:{_lst(w[2])}" for w in (w0, w1))
        rs = "/".join("-" if r is None else str(r) for r in (r0, r1))
        lines.append(f"mcyc r={rs} p={int(p0)}/{int(p1)} w={ws} c={int(c0)}")
    return Case(
        _cfg_line(depth, rw, ww, mx, dw) + f" ro={sim.ro} wo={sim.wo}",
        lines,
        {"component": "WideFifo", "callers": 2, "depth": depth, "rw": rw, "ww": ww, "max": mx, "dw": dw, "wellformed": True},
        "two-callers",
    )


def gen_multi(ctx: Check) -> list[Case]:
    rng = ctx.rng("multi")
    shapes = ctx.pick([(2, 1, 1), (4, 2, 2), (6, 2, 3), (6, 3, 2)], [(1, 1, 1), (2, 1, 1), (4, 2, 2), (6, 2, 3), (6, 3, 2), (8, 4, 4), (9, 3, 1), (10, 2, 5)])
    out = []
    for k, (depth, rw, ww) in enumerate(shapes):
        for mx in ((k + ctx.seed) % 2,) if ctx.quick else (0, 1):
            cfgt = (depth, rw, ww, mx, 6)
            for j in range(ctx.pick(2, 4)):
                out.append(_mk_multi(cfgt, ctx.pick(60, 200), rng, [(0.8, 0.5, 0.8, 0.02), (1.0, 1.0, 1.0, 0.0), (0.5, 0.5, 0.9, 0.02), (0.9, 0.5, 0.4, 0.02)][j]))
    return out


def more_multi(case: Case, rng):
    d = case.desc
    cfgt = (d["depth"], d["rw"], d["ww"], d["max"], d.get("dw", 6))
    for k in range(10):
        yield _mk_multi(cfgt, 100, rng, (0.8, 0.5, 0.8, 0.02))


def nontrivial_multi(case: Case, out: list[str]) -> bool:
    """both callers of read and both callers of write attempted in some cycle where the method could run"""
    both_r = both_w = False
    for op, o in zip(case.ops, out[1:]):
        i = _parse_mop(op)
        both_r |= all(r is not None for r in i["r"]) and " rdy=11" in o
        both_w |= all(w is not None for w in i["w"]) and o.split(" rdy=")[1][2] == "1"
    return both_r and both_w


def load_corpus() -> list[Case]:
    import json

    from ..common import CORPUS

    out = []
    for p in sorted((CORPUS / "C15").glob("*.json")):
        b = json.loads(p.read_text())
        out.append(Case(b["cfg"], list(b["ops"]), b.get("desc", {}), "corpus"))
    return out


def run(ctx: Check):
    ctx.rule = (
        "cases = (depth, read_width, write_width, write_max_count, data width; history of attempted "
        "read(count)/peek/write(count[,max_count],data)/clear with consecutive (hence locally distinct) data words); "
        "non-trivial = history in which the queue becomes full and empty again, a read and a write execute in the "
        "same cycle and the read pointer wraps around"
    )
    ctx.proof_stage()
    procs = 1 if ctx.quick else None
    cases, malformed = gen_cases(ctx)
    cases = load_corpus() + cases
    lockstep(ctx, "widefifo", "C15", cases, impl, monitor, more_cases, nontrivial, procs=procs)
    ctx.count("configurations", len({c.cfg for c in cases}))
    ctx.count("cycles_wellformed", sum(len(c.ops) for c in cases))
    # two callers per method: exclusivity of read/write, property on the union of executed calls (procs=1: the
    # static caller order probed in this process is part of the cfg line)
    lockstep(ctx, "widefifo-two-callers", "C15", gen_multi(ctx), impl_multi, monitor_multi, more_multi, nontrivial_multi, procs=1)
    if ctx.violations:
        return  # the model-only comparisons below would only repeat the alarm without a failing input
    # outside the environment hypotheses (count > write_width, count > max_count): model vs. code, no property claim
    lockstep(ctx, "widefifo-malformed", "C15", malformed, impl, None, None, lambda c, o: False, procs=procs)
    ctx.count("cycles_malformed", sum(len(c.ops) for c in malformed))
    lockstep(ctx, "widefifo-rejected-config", "C15", rejected_configs(), impl, None, None, lambda c, o: False, procs=1)
    if ctx.thorough:
        ex = gen_exhaustive(ctx)
        lockstep(ctx, "widefifo-exhaustive", "C15", ex, impl, monitor, more_cases, nontrivial, procs=procs)
        ctx.note(f"{len(ex)} exhaustive histories of length 3 on the smallest configurations (alphabet: read count x write count x clear)")
    ctx.note("malformed stream (write count beyond write_width / max_count) is compared model-vs-code without a property claim; "
             "the documented hazard count > max_count overflows the queue in code and model alike")


def replay(ctx: Check, body: dict):
    from ..lockstep import replay_case

    if body.get("desc", {}).get("callers") == 2:
        return replay_case(body, impl_multi, monitor_multi)
    return replay_case(body, impl, monitor)
