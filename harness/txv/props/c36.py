"""C36 — bit-manipulation helpers compute their documented functions
(transactron/utils/amaranth_ext/functions.py:47-446)."""

from __future__ import annotations

import functools

from ..common import Check
from ..lockstep import Case, lockstep, replay_case
from ..combeval import CombDesign, evaluate, kv, ints, show_list, corner_values

META = {
    "id": "C36",
    "design_ref": "DESIGN.md §9 C36",
    "technique": "Lean 4 theorems (every width / every value) equating hand-written models that mirror the "
    "construction of each helper (binary reduction tree, recursive halving, two's-complement tricks in BitVec w, "
    "SwitchValue first-match) with the documented mathematical function; correspondence of the models with the "
    "real Amaranth expressions evaluated in pysim, exhaustively at small widths and randomly up to 64 bits",
    "level_text": "23 theorems: popcount = number of set bits; ctz/clz = index of lowest/highest set bit (width if none); "
    "cyclic_mask bitwise characterisation; extract/clear_lowest_set_bit and the four mask_* helpers bit by bit for "
    "every BitVec width; mod_incr = (x+1) mod m for residues; mod_add = (x+i) mod m for every residue and every "
    "incr <= max_incr (c36_mod_add, unconditional since the repair of F11 in commit 656ad56; the old witness is a "
    "regression case) and for every operand when mod is a power of two; binary_tree_reduce = left fold for associative operators, hence "
    "sum/or/and/min/max_value; switch_value = first matching case, mux",
    "level_note": "trusted: Lean kernel, axioms propext/Classical.choice/Quot.sound; Amaranth operator semantics "
    "(widening +, signed negation, slicing, SwitchValue first match) and pysim; the harness glue (number <-> bit "
    "list). Not modelled: string (wildcard) switch patterns, enum keys, signed operands, zero-width values; "
    "mod_incr/mod_add are specified on residues sig < mod only (for a non-power-of-two mod).",
}

UNARY = ["popcount", "ctz", "clz", "extract", "clear", "mfrom", "mafter", "muntil", "mbefore"]
REDUCE = ["sum", "or", "and", "min", "max"]
CHUNK = 2500


def _pow2(m: int) -> bool:
    return m & (m - 1) == 0


# --------------------------------------------------------------------------- implementation side
def build(desc: dict) -> CombDesign:
    """Build the REAL expressions for one configuration."""
    from amaranth import Signal, Value
    from amaranth.lib import data
    from transactron.utils.amaranth_ext import functions as F

    g = desc["g"]
    if g == "unary":
        x = Signal(desc["w"])
        return CombDesign(
            [x],
            {
                "popcount": (F.popcount(x), None),
                "ctz": (F.count_trailing_zeros(x), None),
                "clz": (F.count_leading_zeros(x), None),
                "extract": (F.extract_lowest_set_bit(x), None),
                "clear": (F.clear_lowest_set_bit(x), None),
                "mfrom": (F.mask_from_first_set_bit(x), None),
                "mafter": (F.mask_after_first_set_bit(x), None),
                "muntil": (F.mask_until_first_set_bit(x), None),
                "mbefore": (F.mask_before_first_set_bit(x), None),
            },
        )
    if g == "cmask":
        bits = desc["w"]
        pw = max(1, (bits - 1).bit_length())
        s, e = Signal(pw), Signal(pw)
        return CombDesign([s, e], {"cmask": (F.cyclic_mask(bits, s, e), None)})  # full returned value, not only `bits` bits
    if g == "modincr":
        x = Signal(desc["xw"])
        return CombDesign([x], {"modincr": (F.mod_incr(x, desc["m"]), None)})
    if g == "modadd":
        x, i = Signal(desc["xw"]), Signal(desc["iw"])
        return CombDesign([x, i], {"modadd": (F.mod_add(x, desc["m"], i, desc["mi"]), None)})
    if g == "reduce":
        w, k, style = desc["w"], desc["k"], desc["style"]
        if style == "view" and k > 0:
            v = Signal(data.StructLayout({f"f{j}": w for j in range(k)}))
            inputs = [v.as_value()]
            args = (v,)
        else:
            xs = [Signal(w, name=f"x{j}") for j in range(k)]
            inputs = xs
        # the operands are `ValueBundle`s: any (also one-shot) iterable / mapping nesting; fresh container per call
        forms = {
            "view": lambda: args,
            "flat": lambda: tuple(xs),
            "list": lambda: (list(xs),),
            "tuple": lambda: (tuple(xs),),
            "nest": lambda: (xs[:1], {"a": xs[1:2], "b": [xs[2:]]}),
            "gen": lambda: ((x for x in xs),),
            "iter": lambda: (iter(xs),),
            "zip": lambda: (zip(xs[0::2], xs[1::2]), xs[k - 1 :] if k % 2 else ()),
            "dictvals": lambda: ({j: x for j, x in enumerate(xs)}.values(),),
            "map": lambda: (map(lambda x: x, xs),),
        }
        mk = forms[style if k > 0 or style != "view" else "flat"]
        outs = {
            "sum": (F.sum_value(*mk()), None),
            "or": (F.or_value(*mk()), None),
            "and": (F.and_value(*mk()), None if k > 0 else w),  # no values: the signed neutral C(-1) read at width w
        }
        if k > 0:
            outs["min"] = (F.min_value(*mk()), None)
            outs["max"] = (F.max_value(*mk()), None)
        return CombDesign(inputs, outs)
    if g in ("mux", "switch"):
        w, style = desc["w"], desc["style"]

        def mkval(name):
            if style == "view":
                v = Signal(data.StructLayout({"p": w // 2, "q": w - w // 2}), name=name)
                return v, v.as_value()
            s = Signal(w, name=name)
            return s, s

        if g == "mux":
            sel = Signal(desc["sw"])
            (a, ai), (b, bi) = mkval("a"), mkval("b")
            return CombDesign([sel, ai, bi], {"mux": (Value.cast(F.mux(sel, a, b)), None)})
        t = Signal(desc["tw"])
        vals = [mkval(f"v{j}") for j in range(len(desc["keys"]))]
        keys = [tuple(k) if isinstance(k, list) else k for k in desc["keys"]]
        objs = [v for v, _ in vals]
        cases = list(zip(keys, objs))
        # `cases: Iterable[tuple[key, value]]` - passed in the container form chosen for this configuration
        cf = desc.get("cf", "list")
        if cf == "items" and len(set(keys)) == len(keys):
            arg = dict(cases).items()
        else:
            arg = {"tuple": tuple(cases), "gen": (c for c in cases), "iter": iter(cases), "zip": zip(keys, objs), "map": map(lambda c: c, cases)}.get(cf, cases)
        return CombDesign([t] + [vi for _, vi in vals], {"switch": (Value.cast(F.switch_value(t, arg)), None)})
    raise ValueError(g)


def vector(desc: dict, f: dict) -> list[int]:
    g = desc["g"]
    if f["op"] == "len":
        return [0]
    if g in ("unary", "modincr"):
        return [int(f["x"])]
    if g == "cmask":
        return [int(f["s"]), int(f["e"])]
    if g == "modadd":
        return [int(f["x"]), int(f["i"])]
    if g == "reduce":
        vs = ints(f["v"])
        if desc["style"] == "view" and desc["k"] > 0:
            return [sum(v << (j * desc["w"]) for j, v in enumerate(vs))]
        return vs
    if g == "mux":
        return [int(f["s"]), int(f["a"]), int(f["b"])]
    if g == "switch":
        return [int(f["t"])] + ints(f["v"])
    raise ValueError(g)


def impl(case: Case) -> list[str]:
    desc = case.desc
    try:
        design = build(desc)
        fs = [kv(line) for line in case.ops]
        res = evaluate(design, [vector(desc, f) for f in fs])
    except Exception as e:  # noqa: BLE001 - an exception of the real code is an observation
        return ["ok"] + [f"raise {type(e).__name__}"] * len(case.ops)
    return ["ok"] + [f"r={design.lens[f['f']]}" if f["op"] == "len" else f"r={r[f['op']]}" for f, r in zip(fs, res)]


# --------------------------------------------------------------------------- property monitor
def _lowest(x: int, w: int) -> int:
    """index of the lowest set bit, w if there is none"""
    for i in range(w):
        if (x >> i) & 1:
            return i
    return w


def reference(f: dict):
    """The documented function, in plain Python (independent of the Lean model)."""
    op = f["op"]
    if op == "len":  # width of the returned Value: bits_for(w) / ceil_log2(w+1) / same as the operand
        w = int(f["w"])
        return w.bit_length() if f["f"] in ("popcount", "ctz", "clz") else w
    if op in UNARY:
        w, x = int(f["w"]), int(f["x"])
        full = (1 << w) - 1
        lo = _lowest(x, w)
        if op == "popcount":
            return bin(x).count("1")
        if op == "ctz":
            return lo
        if op == "clz":
            return next((n for n in range(w) if (x >> (w - 1 - n)) & 1), w)
        if op == "extract":
            return 0 if lo == w else 1 << lo
        if op == "clear":
            return x if lo == w else x & ~(1 << lo)
        if op == "mfrom":  # lowest set bit (inclusive) up to the width
            return sum(1 << i for i in range(w) if i >= lo)
        if op == "mafter":  # lowest set bit (exclusive) up to the width
            return sum(1 << i for i in range(w) if i > lo)
        if op == "muntil":  # bit 0 up to the lowest set bit (inclusive)
            return sum(1 << i for i in range(w) if i <= lo) & full
        if op == "mbefore":  # bit 0 up to the lowest set bit (exclusive)
            return sum(1 << i for i in range(w) if i < lo)
    if op == "cmask":
        bits, s, e = int(f["w"]), int(f["s"]), int(f["e"])
        if s <= e:
            return sum(1 << i for i in range(bits) if s <= i <= e)
        return sum(1 << i for i in range(bits) if i <= e or i >= s)
    if op == "modincr":
        return (int(f["x"]) + 1) % int(f["m"])
    if op == "modadd":
        return (int(f["x"]) + int(f["i"])) % int(f["m"])
    if op in REDUCE:
        vs = ints(f["v"])
        if op == "sum":
            return sum(vs)
        if op == "or":
            return functools.reduce(lambda a, b: a | b, vs, 0)
        if op == "and":
            return functools.reduce(lambda a, b: a & b, vs, (1 << int(f["w"])) - 1)
        return min(vs) if op == "min" else max(vs)
    if op == "mux":
        return int(f["a"]) if int(f["s"]) != 0 else int(f["b"])
    if op == "switch":
        t, vals = int(f["t"]), ints(f["v"])
        for key, v in zip(f["k"].split("/"), vals):
            if key == "d" or t in ints(key):
                return v
        return 0
    raise ValueError(op)


def in_domain(f: dict) -> bool:
    """Region where the (unconditional or documented) theorems apply."""
    if f["op"] == "modadd":
        m, mi, x, i = int(f["m"]), int(f["mi"]), int(f["x"]), int(f["i"])
        return _pow2(m) or (x < m and i <= mi)
    if f["op"] == "modincr":
        return _pow2(int(f["m"])) or int(f["x"]) < int(f["m"])
    if f["op"] == "cmask":
        return int(f["s"]) < int(f["w"]) and int(f["e"]) < int(f["w"])
    return True


def monitor(case: Case, out: list[str]):
    for k, (line, o) in enumerate(zip(case.ops, out[1:])):
        f = kv(line)
        if not in_domain(f):
            continue
        exp = reference(f)
        if o != f"r={exp}":
            return f"{line}: implementation returned {o[2:] if o.startswith('r=') else o}, documented function gives {exp}"
    return None


def nontrivial(case: Case, out: list[str]) -> bool:
    """the helper is not constant on the inputs of this case (at least two different results)"""
    return len(set(out[1:])) >= 2


# --------------------------------------------------------------------------- generators
def _cfg(desc: dict) -> str:
    parts = []
    for k, v in desc.items():
        if k == "keys":
            v = _keys_str(v)
        parts.append(f"{k}={v}")
    return "cfg " + " ".join(parts)


def _keys_str(keys) -> str:
    return "/".join("d" if k is None else (",".join(map(str, k)) if isinstance(k, list) else str(k)) for k in keys)


def _cases(desc: dict, ops: list[str], tag: str) -> list[Case]:
    return [Case(_cfg(desc), ops[i : i + CHUNK], dict(desc), tag) for i in range(0, max(len(ops), 1), CHUNK) if ops]


def _rand_vals(w: int, rng, n: int) -> list[int]:
    vals = corner_values(w)
    while len(vals) < n:
        x = rng.getrandbits(w)
        r = rng.random()
        if r < 0.25:  # long runs of trailing / leading zeros
            x &= ~((1 << rng.randrange(w)) - 1)
        elif r < 0.4:
            x >>= rng.randrange(w)
        vals.append(x)
    return vals


def unary_ops(w: int, xs) -> list[str]:
    return [f"op=len f={op} w={w}" for op in UNARY] + [f"op={op} w={w} x={x}" for x in xs for op in UNARY]


def cmask_ops(bits: int, pairs) -> list[str]:
    return [f"op=cmask w={bits} s={s} e={e}" for s, e in pairs]


def reduce_ops(desc: dict, vecs) -> list[str]:
    ops = REDUCE if desc["k"] > 0 else ["sum", "or", "and"]
    out = []
    for v in vecs:
        for op in ops:
            out.append(f"op={op} w={desc['w']} v={show_list(v)}")
    return out


def switch_desc(rng, tw: int, w: int, n: int, style: str = "flat") -> dict:
    keys: list = []
    for j in range(n):
        r = rng.random()
        if j == n - 1 and rng.random() < 0.6:
            keys.append(None)  # default is only legal in the last position (Amaranth rejects unreachable cases)
        elif r < 0.3:
            keys.append(sorted({rng.randrange(1 << tw) for _ in range(rng.randint(2, 3))}))
        else:
            keys.append(rng.randrange(1 << tw))
    return {"g": "switch", "tw": tw, "w": w, "keys": keys, "style": style}


def switch_ops(desc: dict, rng, ts) -> list[str]:
    n = len(desc["keys"])
    ks = _keys_str(desc["keys"])
    return [f"op=switch t={t} k={ks} v={show_list([rng.getrandbits(desc['w']) for _ in range(n)])}" for t in ts]


def modadd_desc(m: int, mi: int) -> dict:
    return {"g": "modadd", "m": m, "mi": mi, "xw": max(1, (m - 1).bit_length()), "iw": max(1, mi.bit_length())}


def modadd_ops(d: dict, pairs) -> list[str]:
    return [f"op=modadd m={d['m']} mi={d['mi']} x={x} i={i}" for x, i in pairs]


def gen_cases(ctx: Check) -> list[Case]:
    rng = ctx.rng("gen")
    cases: list[Case] = []
    small = ctx.pick(range(1, 7), range(1, 9))
    wide = ctx.pick([7, 8, 9, 13, 16, 17, 24, 31, 32, 33, 48, 63, 64], [7, 9, 10, 11, 12, 13, 15, 16, 17, 20, 24, 31, 32, 33, 40, 48, 56, 63, 64])
    nrand = ctx.pick(2000, 100000)
    per = max(20, nrand // len(wide))

    # ---- unary helpers: exhaustive at small widths, corner + random values at wide ones
    for w in small:
        cases += _cases({"g": "unary", "w": w}, unary_ops(w, range(1 << w)), "exhaustive")
    for w in wide:
        cases += _cases({"g": "unary", "w": w}, unary_ops(w, _rand_vals(w, rng, per)), "random")

    # ---- cyclic_mask: all (start, end) positions
    for bits in ctx.pick(range(1, 17), range(1, 41)):
        cases += _cases({"g": "cmask", "w": bits}, cmask_ops(bits, [(s, e) for s in range(bits) for e in range(bits)]), "exhaustive")
    for bits in (63, 64):
        pairs = [(0, bits - 1), (bits - 1, 0), (bits - 1, bits - 1), (0, 0), (1, 0), (bits - 1, bits - 2)]
        pairs += [(rng.randrange(bits), rng.randrange(bits)) for _ in range(ctx.pick(300, 4000))]
        cases += _cases({"g": "cmask", "w": bits}, cmask_ops(bits, pairs), "random")

    # ---- mod_incr: every residue for small moduli; wider operand for powers of two
    for m in ctx.pick(range(1, 34), range(1, 200)):
        xw = max(1, (m - 1).bit_length())
        cases += _cases({"g": "modincr", "m": m, "xw": xw}, [f"op=modincr m={m} x={x}" for x in range(m)], "exhaustive")
        if _pow2(m):
            cases += _cases({"g": "modincr", "m": m, "xw": xw + 2}, [f"op=modincr m={m} x={x}" for x in range(1 << (xw + 2))], "exhaustive")
    for _ in range(ctx.pick(8, 60)):
        m = rng.choice([rng.randrange(34, 5000), (1 << rng.randrange(6, 40)) + rng.choice([-1, 0, 1])])
        xs = {0, 1, m - 1, m - 2} | {rng.randrange(m) for _ in range(40)}
        cases += _cases({"g": "modincr", "m": m, "xw": max(1, (m - 1).bit_length())}, [f"op=modincr m={m} x={x}" for x in sorted(xs) if 0 <= x < m], "random")

    # ---- mod_add: every residue and every incr <= max_incr; max_incr below, at and beyond mod (several wraps)
    for m in ctx.pick(range(1, 10), range(1, 20)):
        for mi in list(range(0, m + 3)) + [2 * m, 2 * m + 1, 3 * m + 1]:
            d = modadd_desc(m, mi)
            cases += _cases(d, modadd_ops(d, [(x, i) for x in range(m) for i in range(mi + 1)]), "exhaustive")
    for _ in range(ctx.pick(14, 100)):
        m = rng.choice([rng.randrange(10, 3000), rng.randrange(3, 30), 1 << rng.randrange(4, 20)])
        mi = rng.randrange(1, 41)
        d = modadd_desc(m, mi)
        pairs = {(m - 1, mi), (m - 1, 1), (0, mi), (m - mi, mi), (max(0, m - mi - 1), mi)}
        pairs |= {(rng.randrange(m), rng.randrange(mi + 1)) for _ in range(60)}
        pairs |= {(m - 1 - rng.randrange(min(m, mi + 1)), rng.randrange(mi + 1)) for _ in range(60)}
        cases += _cases(d, modadd_ops(d, sorted(p for p in pairs if 0 <= p[0] < m and 0 <= p[1] <= mi)), "random")

    # ---- sum/or/and/min/max_value: all value tuples while w*k is small; random for many / wide values
    import itertools

    lim = ctx.pick(6, 10)
    styles = ["flat", "list", "nest", "view", "gen", "tuple", "iter", "zip", "dictvals", "map"]
    n = 0
    for w in range(1, lim + 1):
        for k in range(0, lim // w + 1):
            d = {"g": "reduce", "w": w, "k": k, "style": styles[n % len(styles)] if k else ["flat", "gen", "list"][n % 3]}
            n += 1
            cases += _cases(d, reduce_ops(d, [list(v) for v in itertools.product(range(1 << w), repeat=k)]), "exhaustive")
    for w, k in ctx.pick(
        [(3, 5), (4, 7), (8, 3), (8, 8), (8, 9), (16, 4), (16, 16), (33, 5), (64, 2), (64, 6), (1, 11), (2, 13)],
        [(w, k) for w in (2, 3, 4, 8, 16, 33, 64) for k in (2, 3, 4, 5, 6, 7, 8, 9, 12, 16, 17)],
    ):
        d = {"g": "reduce", "w": w, "k": k, "style": styles[(w + k) % len(styles)]}
        vecs = [[rng.choice(corner_values(w)) for _ in range(k)] for _ in range(10)]
        vecs += [[rng.getrandbits(w) for _ in range(k)] for _ in range(ctx.pick(30, 400))]
        vecs += [[x] * k for x in (0, (1 << w) - 1)]
        cases += _cases(d, reduce_ops(d, vecs), "random")

    # ---- mux
    for sw in (1, 2, 3):
        for w in (1, 2):
            d = {"g": "mux", "sw": sw, "w": w, "style": "view" if (w == 2 and sw == 2) else "flat"}
            ops = [f"op=mux s={s} a={a} b={b}" for s in range(1 << sw) for a in range(1 << w) for b in range(1 << w)]
            cases += _cases(d, ops, "exhaustive")
    for sw, w, style in [(1, 8, "flat"), (4, 16, "view"), (8, 64, "flat"), (2, 33, "view")]:
        d = {"g": "mux", "sw": sw, "w": w, "style": style}
        ops = [f"op=mux s={rng.choice([0, 0, 1, rng.getrandbits(sw)])} a={rng.getrandbits(w)} b={rng.getrandbits(w)}" for _ in range(ctx.pick(60, 1500))]
        cases += _cases(d, ops, "random")

    # ---- switch_value: random key lists (ints, tuples, trailing default, duplicates); every test value
    for j in range(ctx.pick(24, 300)):
        tw = rng.choice([1, 2, 3, 3, 4])
        d = switch_desc(rng, tw, rng.choice([1, 4, 8, 32]), rng.randint(1, 6), "view" if j % 5 == 4 else "flat")
        if d["style"] == "view" and d["w"] < 2:
            d["style"] = "flat"
        d["cf"] = ["list", "gen", "tuple", "iter", "zip", "items", "map"][j % 7]
        ts = list(range(1 << tw)) * ctx.pick(2, 4)
        cases += _cases(d, switch_ops(d, rng, ts), "exhaustive")
    d = {"g": "switch", "tw": 3, "w": 4, "keys": [1, [2, 3], 2, 1, None], "style": "flat", "cf": "gen"}  # duplicates after a match
    cases += _cases(d, switch_ops(d, rng, list(range(8)) * 2), "directed")
    d = {"g": "switch", "tw": 2, "w": 4, "keys": [3, 1], "style": "flat", "cf": "zip"}  # no default: 0 when nothing matches
    cases += _cases(d, switch_ops(d, rng, list(range(4)) * 2), "directed")
    return cases


def more_cases(case: Case, rng):
    """failing-input search after a divergence: fresh inputs for the same configuration"""
    d = case.desc
    g = d["g"]
    if g == "unary":
        w = d["w"]
        xs = range(1 << w) if w <= 10 else _rand_vals(w, rng, 600)
        yield from _cases(d, unary_ops(w, xs), "search")
    elif g == "cmask":
        b = d["w"]
        yield from _cases(d, cmask_ops(b, [(s, e) for s in range(b) for e in range(b)]), "search")
    elif g == "modincr":
        m = d["m"]
        xs = range(m) if m <= 4096 else sorted({0, m - 1, m - 2} | {rng.randrange(m) for _ in range(500)})
        yield from _cases(d, [f"op=modincr m={m} x={x}" for x in xs], "search")
    elif g == "modadd":
        m, mi = d["m"], d["mi"]
        if m * (mi + 1) <= 20000:
            pairs = [(x, i) for x in range(m) for i in range(mi + 1)]
        else:
            pairs = sorted({(m - 1 - rng.randrange(min(m, 2 * mi + 2)), rng.randrange(mi + 1)) for _ in range(2000)})
        yield from _cases(d, modadd_ops(d, pairs), "search")
    elif g == "reduce":
        w, k = d["w"], d["k"]
        vecs = [[rng.getrandbits(w) for _ in range(k)] for _ in range(500)]
        yield from _cases(d, reduce_ops(d, vecs), "search")
    elif g == "mux":
        ops = [f"op=mux s={rng.choice([0, rng.getrandbits(d['sw'])])} a={rng.getrandbits(d['w'])} b={rng.getrandbits(d['w'])}" for _ in range(500)]
        yield from _cases(d, ops, "search")
    elif g == "switch":
        yield from _cases(d, switch_ops(d, rng, list(range(1 << d["tw"])) * 8), "search")


# --------------------------------------------------------------------------- findings
# F11 (mod_add with a non-power-of-two mod < max_incr), repaired in /repo commit 656ad56: regression witness
F11_WITNESS = {"cfg": "cfg g=modadd m=3 mi=4 xw=2 iw=3", "ops": ["op=modadd m=3 mi=4 x=2 i=4"]}


def desc_of_cfg(cfg: str) -> dict:
    """inverse of `_cfg` (a witness may carry only the cfg line)"""
    d: dict = {}
    for k, v in kv(cfg).items():
        if k == "keys":
            d[k] = [None if x == "d" else (ints(x) if "," in x else int(x)) for x in v.split("/")]
        else:
            d[k] = int(v) if v.lstrip("-").isdigit() else v
    return d


def replay_witness(w: dict):
    """a finding / regression witness: the documented function evaluated on the real code"""
    case = Case(w["cfg"], list(w["ops"]), w.get("desc") or desc_of_cfg(w["cfg"]), "witness")
    out = impl(case)
    for line, o in zip(case.ops, out[1:]):
        exp = reference(kv(line))
        if o != f"r={exp}":
            return f"{line}: implementation returned {o}, documented function gives {exp}"
    return None


# --------------------------------------------------------------------------- entry points
def run(ctx: Check):
    ctx.rule = (
        "case = one configuration (helper group, width / modulus / number of values / key list) with a batch of input "
        "vectors, one evaluation per (helper, input vector); exhaustive over all inputs at small widths, corner and "
        "seeded random values up to 64 bits; non-trivial = the helper takes at least two different values on the batch"
    )
    ctx.proof_stage()
    ctx.replay_findings(replay_witness)
    cases = gen_cases(ctx)
    for c in cases:
        for line in c.ops:
            ctx.count("op_" + line.split()[0][3:])
    ctx.note("every helper result is observed at the width of the returned Value plus 4 bits (sign-extended), and "
             "len(result) is compared with the documented width for popcount/ctz/clz/extract/clear/mask_*")
    cases.insert(0, Case(F11_WITNESS["cfg"], list(F11_WITNESS["ops"]), desc_of_cfg(F11_WITNESS["cfg"]), "directed"))
    lockstep(ctx, "bits", "C36", cases, impl, monitor, more_cases, nontrivial, procs=ctx.pick(4, None))
    ctx.exhaustive = False
    ctx.note("exhaustive part: every input of every helper at widths 1..%d" % ctx.pick(6, 8))


def replay(ctx: Check, body: dict):
    return replay_case(body, impl, monitor)
