"""C43 — Testbench helpers call methods exactly once
(transactron/testing/testbenchio.py CallTrigger / TestbenchIO.call / call_try, transactron/testing/method_mock.py)."""

from __future__ import annotations

from typing import Optional

import json

from ..common import CORPUS, Check
from ..lockstep import Case, lockstep

META = {
    "id": "C43",
    "design_ref": "DESIGN.md §8 C43",
    "technique": "Lean 4 theorems over a cycle-level model of a testbench process driving CallTrigger "
    "(call_init / sample done+outputs at the edge / disable; call = until_done) and of MethodMock's _effects/_freeze "
    "mechanism (output_process per settled change, clock edge, effect_process); correspondence against real pysim "
    "runs: the real TestbenchIO and MethodMock inside PysimSimulator around a small design (wrapper -> mocked "
    "target), executed calls counted independently by sampling Method.run every cycle",
    "level_text": "c43_call_once/c43_call_result (call spans the cycles up to the first one in which the method would "
    "run, the method runs for this adapter in exactly that one, and the value returned is that cycle's result), "
    "c43_call_try_none_iff, c43_calls_counted, c43_mock_effects_once (for every history and every order of "
    "intra-cycle changes the effects applied after an edge are exactly those registered for the sampled argument iff "
    "the method ran, so the effect log is the concatenation over executed calls), c43_mock_result_same_cycle, "
    "c43_sys_call_value are proved for every program, every readiness history, every enable pattern and every mocked "
    "function; multi-call CallTrigger: c43_trig_attempts (one attempt per listed call per awaited cycle, executes iff "
    "granted), c43_trig_until (until_done / until_all_done / single await return at the FIRST cycle whose results "
    "satisfy any / all / true, with that cycle's results), c43_trig_result_none_iff, c43_trig_counts (executed calls = "
    "granted awaited cycles), c43_trig_blocked",
    "level_note": "PARTIAL by nature: the delta-cycle scheduling of pysim (sim.changed waking output_process on every "
    "settled change, processes settling before testbenches, delay(0) ordering the re-enable after the other testbenches "
    "of the instant, _freeze being set before any testbench runs) lives in the simulator runtime and is NOT modelled; "
    "the model takes the resulting event order as input and the correspondence exercises it (both testbench orders, "
    "five mock delays all shorter than the clock period, mid-cycle changes of readiness/arguments; a delay of a full "
    "period or more is outside the model). The mocked function may read Python-side state (not a signal) that another testbench updates; "
    "model hypothesis: such updates happen between the clock edge and the end of the mock's delay (the purpose of "
    "delay) - generators satisfy it for the DECLARED delay, the monitor compares with the state at the edge. Half of "
    "the mocks are declared as methods of a class through def_method_mock (bound enable, delay, single_caller) and "
    "the harness checks the keywords reached the MethodMock. validate_arguments_process is not modelled. Multi-call CallTrigger "
    "(.call/.sample of methods and of a plain value, await / until_done / until_all_done) is modelled and compared on a "
    "second design with three plain methods (no mock), executed calls counted per method by sampling Method.run. trusted: Lean kernel (propext, Classical.choice, Quot.sound), "
    "pysim, harness glue.",
}

W = 6
T = 1e-6
# mock delay -> the phase after which the mock re-enables (phases are driven at 0, T/4 and T/2 after the edge)
DELAYS = {"0": (0.0, 0), "f": (1e-9, 0), "a": (T / 8, 0), "b": (3 * T / 8, 1), "c": (5 * T / 8, 2)}

_dut_cls = None


def _dut_class():
    global _dut_cls
    if _dut_cls is None:
        from amaranth import Elaboratable, Signal
        from amaranth.lib.data import StructLayout
        from transactron import Method, Provided, Required, TModule, def_method

        class TbDut(Elaboratable):
            def __init__(self):
                self.target = Method(i=StructLayout({"a": W}), o=StructLayout({"o": W}))
                self.wrapper = Method(i=StructLayout({"a": W}), o=StructLayout({"o": W}))
                self.rdy = Signal()
                self.val = Signal(W)
                self.cyc = Signal(W)

            def elaborate(self, platform):
                m = TModule()
                m.d.sync += self.cyc.eq(self.cyc + 1)

                @def_method(m, self.wrapper, ready=self.rdy)
                def _(a):
                    return {"o": self.target(m, a=a + self.cyc).o + self.val}

                return m

        # real objects, not strings (this module uses postponed evaluation of annotations and SimpleTestCircuit
        # evaluates them in the module's globals)
        TbDut.__annotations__ = {"target": Required[Method], "wrapper": Provided[Method]}
        _dut_cls = TbDut
    return _dut_cls


def _parse_cfg(cfg: str) -> dict:
    t = dict(x.split("=", 1) for x in cfg.split()[1:])
    ka, kb, kc, ne, kn = (int(x) for x in t["fn"].split(","))
    prog = [] if t["prog"] == "-" else t["prog"].split(",")
    return dict(w=int(t["w"]), ka=ka, kb=kb, kc=kc, ne=ne, kn=kn, prog=prog)


def fn_ret(cfg: dict, log: list, a: int, x: int):
    """the mocked Python function of the scenarios: None for some (history dependent) calls, else a value"""
    if cfg["kn"] > 0 and (a + len(log)) % cfg["kn"] == 0:
        return None
    return (cfg["ka"] * a + cfg["kb"] * len(log) + cfg["kc"] * sum(log) + x) % 2**W


def _parse_cyc(op: str) -> dict:
    t = dict(x.split("=", 1) for x in op.split()[1:])
    phases = []
    for p in t["p"].split(","):
        f = p.split("x")
        phases.append((int(f[0]), None) if len(f) == 1 else (int(f[0]), (int(f[1]), int(f[2]))))
    xs = [int(v) for v in t["xs"].split(",")]
    return dict(phases=phases, e=int(t["e"]), men=int(t["men"]), val=int(t["val"]), x=int(t["x"]), xs=xs)


_last: dict = {}


def simulate(case: Case) -> dict:
    """Run the REAL TestbenchIO / CallTrigger / MethodMock in PysimSimulator; return raw observations."""
    from transactron.testing import SimpleTestCircuit
    from transactron.testing.method_mock import MethodMock, def_method_mock
    from transactron.testing.simulator import PysimSimulator
    from transactron.utils.dependencies import DependencyContext, DependencyManager

    key = case.key() + repr(sorted(case.desc.items()))
    if _last.get("key") == key:
        return _last["res"]
    cfg = _parse_cfg(case.cfg)
    cycles = [_parse_cyc(op) for op in case.ops]
    delay = DELAYS[case.desc["delay"]][0]
    mock_first = bool(case.desc["mock_first"])
    mod = 2**W
    efflog: list[int] = []  # the test's own state: payloads of applied effects
    applied_at: list[tuple[int, int]] = []  # (index of the clock edge after which it was applied, payload)
    events: list[tuple[int, str]] = []  # (cycle in which the call returned, what it returned)
    rows: list[list[int]] = []
    edges = [0]
    men_iter = iter([c["men"] for c in cycles] + [0] * 4)
    pyx = [cycles[0]["xs"][0] if cycles else 0]  # Python-side state (not a signal) read by the mocked function
    kwinfo: list[str] = []

    dm = DependencyManager()
    with DependencyContext(dm):
        dut = _dut_class()()
        circ = SimpleTestCircuit(dut)
        sim = PysimSimulator(circ, max_cycles=len(cycles) + 8)

        def mocked(a):
            a = int(a)
            x = pyx[0]
            r = fn_ret(cfg, efflog, a, x)
            for i in range(cfg["ne"]):

                @MethodMock.effect
                def _(p=(a + x + i) % mod):
                    efflog.append(p)
                    applied_at.append((edges[0] - 1, p))

            return None if r is None else {"o": r}

        async def edge_counter(ctx):  # a process: settles before any testbench resumes after an edge
            async for _ in ctx.tick():
                edges[0] += 1

        async def driver(ctx):
            wr = circ.wrapper.adapter
            for c in cycles:
                ctx.set(dut.val, c["val"])
                for n, (rdy, raw) in enumerate(c["phases"]):
                    if n and rows:  # the first cycle is only the half period before the first edge: no waiting
                        await ctx.delay(T / 4)
                    pyx[0] = c["xs"][n]  # another testbench updating shared Python state: no signal changes
                    ctx.set(dut.rdy, rdy)
                    if raw is not None:
                        ctx.set(wr.en, raw[0])
                        ctx.set(wr.data_in.as_value(), raw[1] % mod)
                s = await ctx.tick().sample(
                    wr.en,
                    wr.done,
                    wr.data_out.as_value(),
                    dut.wrapper.run,
                    dut.wrapper.data_out.as_value(),
                    dut.target.run,
                    dut.target.data_in.as_value(),
                    circ.target.adapter.data_in.as_value(),
                    dut.cyc,
                )
                rows.append([int(x) for x in s[2:]])

        async def caller(ctx):
            for c in cfg["prog"]:
                if c == "k":
                    await ctx.tick()
                elif c[0] == "c":
                    r = await circ.wrapper.call(ctx, a=int(c[1:]))
                    events.append((edges[0] - 1, f"c:{int(r.o)}"))
                else:
                    r = await circ.wrapper.call_try(ctx, a=int(c[1:]))
                    events.append((edges[0] - 1, "t:-" if r is None else f"t:{int(r.o)}"))

        def add_mock():
            if case.desc.get("bound"):
                # a mock declared as a METHOD OF A TEST CLASS through def_method_mock, with a callable keyword
                # (enable, bound to the instance) and non-callable ones (delay, a boolean method-body option)
                class Holder:
                    def __init__(self):
                        self.tb = circ.target

                    def en(self):
                        return next(men_iter)

                    @def_method_mock(lambda self: self.tb, enable=en, delay=delay, single_caller=True)
                    def target_mock(self, a):
                        return mocked(a)

                mk = Holder().target_mock()
                want = {"delay": delay, "single_caller": True}
                got = {"delay": mk.delay, "single_caller": mk.adapter.kwargs.get("single_caller")}
                if got != want:
                    kwinfo.append(f"mock-keywords-declared={want}-effective={got}".replace(" ", ""))
            else:
                mk = MethodMock(circ.target.adapter, mocked, enable=lambda: next(men_iter), delay=delay)
            sim.add_mock(mk)

        sim.add_process(edge_counter)
        if mock_first:
            add_mock()
        sim.add_testbench(driver)
        if cfg["prog"]:
            sim.add_testbench(caller, background=True)
        if not mock_first:
            add_mock()
        sim.run()
    res = dict(rows=rows, events=events, applied_at=applied_at, cfg=cfg, cycles=cycles, kwinfo=kwinfo)
    _last.update(key=key, res=res)
    return res


def impl(case: Case) -> list[str]:
    if case.desc.get("mode") == "trig":
        return impl_trig(case)
    try:
        r = simulate(case)
    except Exception as e:  # noqa: BLE001 - an exception of the real code is an observation
        return [f"raise {type(e).__name__}"] + ["-"] * len(case.ops)
    out = [r["kwinfo"][0] if r["kwinfo"] else "ok"]
    for k, row in enumerate(r["rows"]):
        en, done, dout = row[0], row[1], row[2]
        app = ",".join(str(p) for kk, p in r["applied_at"] if kk == k) or "-"
        evt = [e for kk, e in r["events"] if kk == k]
        out.append(f"en={en} done={done} ret={dout if done else '-'} app={app} evt={evt[0] if evt else '-'}")
    while len(out) < len(case.ops) + 1:
        out.append("missing-cycle")
    return out


# ------------------------------------------------------------------------------------------------
# monitor: the sentences of C43 on independently sampled signals (Method.run, Method.data_in/out)


def monitor(case: Case, out: list[str]) -> Optional[str]:
    if case.desc.get("mode") == "trig":
        return monitor_trig(case, out)
    if out[0].startswith("mock-keywords"):
        return f"keyword arguments of a class-level def_method_mock did not reach the MethodMock: {out[0]}"
    if out[0] != "ok":
        return f"the real testbench code raised: {out[0]}"
    r = simulate(case)  # deterministic; the monitor needs the independently sampled method signals
    rows, cfg, mod = r["rows"], r["cfg"], 2**W
    wrun = [row[3] for row in rows]  # wrapper.run, sampled every cycle
    wout = [row[4] for row in rows]  # wrapper.data_out (the method's own result signal)
    trun = [row[5] for row in rows]  # target.run
    targ = [row[6] for row in rows]  # target.data_in (argument the mocked method was called with)
    tret = [row[7] for row in rows]  # value the mock drives back
    ev = dict(r["events"])
    if len(ev) != len(r["events"]):
        return "two calls returned in one cycle"
    # ---- TestbenchIO.call / call_try (only when a testbench process drives the adapter)
    cur = 0
    if cfg["prog"]:
        for c in cfg["prog"]:
            if cur >= len(rows):
                break
            if c == "k":
                if wrun[cur]:
                    return f"cycle {cur}: the method ran although the process was only waiting (no call in progress)"
                if cur in ev:
                    return f"cycle {cur}: a result was returned during a plain tick"
                cur += 1
            elif c[0] == "t":
                # "call_try returns None exactly when the method did not run"
                got = ev.get(cur)
                if got is None:
                    return f"cycle {cur}: call_try did not return after one cycle"
                if (got == "t:-") != (wrun[cur] == 0):
                    return f"cycle {cur}: call_try returned {got[2:]} but method.run={wrun[cur]}"
                if wrun[cur] and got != f"t:{wout[cur]}":
                    return f"cycle {cur}: call_try returned {got[2:]} but the method's result in that cycle was {wout[cur]}"
                cur += 1
            else:
                # "call returns the method result of the cycle in which the call succeeded and performs exactly one call"
                end = next((k for k in range(cur, len(rows)) if k in ev), None)
                span = range(cur, len(rows) if end is None else end + 1)
                nrun = sum(wrun[k] for k in span)
                if end is None:
                    if nrun:
                        return f"call started in cycle {cur} never returned but the method ran {nrun} time(s)"
                    cur = len(rows)
                    break
                if nrun != 1 or not wrun[end]:
                    return f"call from cycle {cur} returned in cycle {end}: method.run over these cycles = {[wrun[k] for k in span]} (expected exactly one, in the last)"
                if ev[end] != f"c:{wout[end]}":
                    return f"call returned {ev[end][2:]} in cycle {end} but the method's result in that cycle was {wout[end]}"
                cur = end + 1
        for k in range(cur, len(rows)):
            if wrun[k]:
                return f"cycle {k}: the method ran after the process had finished"
    # ---- MethodMock: "applies its effects exactly once per executed call and its return value reaches the
    #      caller in the same cycle"
    log: list[int] = []
    for k in range(len(rows)):
        app = [p for kk, p in r["applied_at"] if kk == k]
        if trun[k]:
            a = targ[k]
            x = r["cycles"][k]["xs"][-1]  # the shared Python state as it stands at the clock edge
            fr = fn_ret(cfg, log, a, x)
            want_ret = 0 if fr is None else fr  # a None answer is the all-zero result
            if tret[k] != want_ret:
                return (f"cycle {k}: mocked method ran with arg {a} after effects {log} with shared state {x}: caller saw "
                        f"{tret[k]}, the function returns {fr}")
            want = [(a + x + i) % mod for i in range(cfg["ne"])]
            if app != want:
                return f"cycle {k}: mocked method ran with arg {a}: effects applied {app}, expected once {want}"
            if wrun[k] and wout[k] != (want_ret + r["cycles"][k]["val"]) % mod:
                return f"cycle {k}: wrapper result {wout[k]} != mock return {want_ret} + val"
            log += app
        elif app:
            return f"cycle {k}: mocked method did not run but effects {app} were applied"
    stray = [x for x in r["applied_at"] if not (0 <= x[0] < len(rows))]
    if stray:
        return f"effects applied outside any sampled cycle: {stray}"
    return None



# ------------------------------------------------------------------------------------------------
# multi-call CallTrigger: three plain methods, awaited once / until_done / until_all_done

_tdut_cls = None


def _tdut_class():
    global _tdut_cls
    if _tdut_cls is None:
        from amaranth import Elaboratable, Signal
        from amaranth.lib.data import StructLayout
        from transactron import Method, TModule, def_method

        class TrigDut(Elaboratable):
            def __init__(self):
                self.m = [Method(i=StructLayout({"a": W}), o=StructLayout({"o": W})) for _ in range(3)]
                self.m0, self.m1, self.m2 = self.m
                self.rdy = [Signal(name=f"rdy{j}") for j in range(3)]
                self.val = Signal(W)

            def elaborate(self, platform):
                m = TModule()
                dummy = Signal()
                m.d.sync += dummy.eq(~dummy)
                def define(j):
                    @def_method(m, self.m[j], ready=self.rdy[j])
                    def _(a):
                        return {"o": a + self.val + 7 * j}

                for j in range(3):
                    define(j)

                return m

        _tdut_cls = TrigDut
    return _tdut_cls


def _parse_tprog(cfg: str) -> list:
    t = dict(x.split("=", 1) for x in cfg.split()[1:])
    prog = []
    for c in [] if t["prog"] == "-" else t["prog"].split(","):
        if c == "k":
            prog.append(("k",))
        else:
            mode, es = c.split(":")
            ents = []
            for e in es.split("+"):
                if e == "v":
                    ents.append(("v",))
                elif e[0] == "s":
                    ents.append(("s", int(e[1:])))
                else:
                    mth, d = e[1:].split(".")
                    ents.append(("c", int(mth), int(d)))
            prog.append((mode, ents))
    return prog


def _parse_tcyc(op: str) -> dict:
    t = dict(x.split("=", 1) for x in op.split()[1:])
    return dict(g=[int(c) for c in t["g"]], x=[None if v == "-" else int(v) for v in t["x"].split(",")], val=int(t["val"]))


def simulate_trig(case: Case) -> dict:
    """the REAL CallTrigger (.call/.sample, await / until_done / until_all_done) in PysimSimulator"""
    from transactron.testing import SimpleTestCircuit
    from transactron.testing.simulator import PysimSimulator
    from transactron.testing.testbenchio import CallTrigger
    from transactron.utils.dependencies import DependencyContext, DependencyManager

    key = case.key()
    if _last.get("key") == key:
        return _last["res"]
    prog = _parse_tprog(case.cfg)
    cycles = [_parse_tcyc(op) for op in case.ops]
    mod = 2**W
    events: list[tuple[int, str]] = []
    rows: list[list[int]] = []
    edges = [0]
    dm = DependencyManager()
    with DependencyContext(dm):
        dut = _tdut_class()()
        circ = SimpleTestCircuit(dut)
        sim = PysimSimulator(circ, max_cycles=len(cycles) + 8)
        tbs = [circ.m0, circ.m1, circ.m2]

        async def edge_counter(ctx):
            async for _ in ctx.tick():
                edges[0] += 1

        async def driver(ctx):
            for c in cycles:
                ctx.set(dut.val, c["val"] % mod)
                for j in range(3):
                    ctx.set(dut.rdy[j], c["g"][j])
                    if c["x"][j] is not None:
                        ctx.set(tbs[j].adapter.en, 1)
                        ctx.set(tbs[j].adapter.data_in.as_value(), c["x"][j] % mod)
                    elif j in ext_only:
                        ctx.set(tbs[j].adapter.en, 0)
                s = await ctx.tick().sample(
                    *[tb.adapter.en for tb in tbs],
                    *[tb.adapter.done for tb in tbs],
                    *[mm.run for mm in dut.m],
                    *[mm.data_out.as_value() for mm in dut.m],
                )
                rows.append([int(x) for x in s[2:]])

        async def caller(ctx):
            for c in prog:
                if c[0] == "k":
                    await ctx.tick()
                    continue
                mode, ents = c
                t = CallTrigger(ctx)
                for e in ents:
                    if e[0] == "c":
                        t = t.call(tbs[e[1]], a=e[2] % mod)
                    elif e[0] == "s":
                        t = t.sample(tbs[e[1]])
                    else:
                        t = t.sample(dut.val)
                res = await (t if mode == "O" else t.until_done() if mode == "U" else t.until_all_done())
                out = []
                for e, r in zip(ents, res):
                    out.append(str(int(r)) if e[0] == "v" else "-" if r is None else str(int(r.o)))
                events.append((edges[0] - 1, "/".join(out)))

        # adapters only ever driven by the other agent (never called by the process): the driver owns their `en`
        called = {e[1] for c in prog if c[0] != "k" for e in c[1] if e[0] == "c"}
        ext_only = {j for j in range(3) if j not in called}
        sim.add_process(edge_counter)
        sim.add_testbench(driver)
        if prog:
            sim.add_testbench(caller, background=True)
        sim.run()
    res = dict(rows=rows, events=events, prog=prog, cycles=cycles)
    _last.update(key=key, res=res)
    return res


def impl_trig(case: Case) -> list[str]:
    try:
        r = simulate_trig(case)
    except Exception as e:  # noqa: BLE001
        return [f"raise {type(e).__name__}"] + ["-"] * len(case.ops)
    out = ["ok"]
    for k, row in enumerate(r["rows"]):
        evt = [e for kk, e in r["events"] if kk == k]
        out.append(f"en={''.join(map(str, row[0:3]))} done={''.join(map(str, row[3:6]))} evt={evt[0] if evt else '-'}")
    while len(out) < len(case.ops) + 1:
        out.append("missing-cycle")
    return out


def monitor_trig(case: Case, out: list[str]) -> Optional[str]:
    """multi-call CallTrigger on independently sampled Method.run / Method.data_out"""
    if out[0] != "ok":
        return f"the real testbench code raised: {out[0]}"
    r = simulate_trig(case)
    rows, prog, cycles = r["rows"], r["prog"], r["cycles"]
    n = len(rows)
    en = [row[0:3] for row in rows]
    run = [row[6:9] for row in rows]  # Method.run of the three methods, every cycle
    dout = [row[9:12] for row in rows]
    ev = dict(r["events"])
    if len(ev) != len(r["events"]):
        return "two triggers returned in one cycle"
    ext = lambda k, j: cycles[k]["x"][j] is not None  # noqa: E731
    cur = 0
    for c in prog:
        if cur >= n:
            break
        if c[0] == "k":
            for j in range(3):
                if run[cur][j] and not ext(cur, j):
                    return f"cycle {cur}: method {j} ran although the process was only waiting"
            if cur in ev:
                return f"cycle {cur}: a result was returned during a plain tick"
            cur += 1
            continue
        mode, ents = c
        calls = {e[1] for e in ents if e[0] == "c"}
        k = cur
        while k < n:
            # each awaited cycle: exactly one attempt per listed call (adapter enabled; runs iff granted)
            for j in range(3):
                if j in calls:
                    if not en[k][j]:
                        return f"cycle {k}: trigger awaited but adapter of called method {j} is not enabled"
                    if run[k][j] != cycles[k]["g"][j]:
                        return f"cycle {k}: called method {j} granted={cycles[k]['g'][j]} but run={run[k][j]}"
                elif run[k][j] and not ext(k, j):
                    return f"cycle {k}: method {j} is not called by the trigger (nor by the other agent) but ran"
            res = []
            for e in ents:
                if e[0] == "v":
                    res.append(str(cycles[k]["val"] % 2**W))
                else:
                    res.append(str(dout[k][e[1]]) if run[k][e[1]] else "-")
            some = [x != "-" for x in res]
            fire = True if mode == "O" else any(some) if mode == "U" else all(some)
            if fire:
                # returns at the FIRST such cycle with that cycle's results (None iff the method did not run)
                if ev.get(k) != "/".join(res):
                    return (f"trigger {mode}:{ents} awaited from cycle {cur}: in cycle {k} the methods ran={run[k]} so it "
                            f"must return {'/'.join(res)}; it returned {ev.get(k)}")
                break
            if k in ev:
                return f"trigger {mode}:{ents} returned {ev[k]} in cycle {k} although its condition did not hold (ran={run[k]})"
            k += 1
        cur = k + 1
    for k in range(cur, n):
        for j in range(3):
            if run[k][j] and not ext(k, j):
                return f"cycle {k}: method {j} ran after the process had finished"
        if k in ev:
            return f"cycle {k}: a result was returned after the program ended"
    return None


def mk_trig(prog: list[str], cycles, tag: str) -> Case:
    ops = [f"cyc g={''.join(map(str, g))} x={','.join('-' if v is None else str(v) for v in x)} val={val}" for g, x, val in cycles]
    return Case(f"cfg mode=trig w={W} prog={','.join(prog) or '-'}", ops, {"mode": "trig"}, tag)


def gen_trig(rng, n: int, tag="random") -> Case:
    prog = ["k"]
    called: set[int] = set()
    cmds = []
    for _ in range(rng.randint(2, 7)):
        if rng.random() < 0.2:
            cmds.append("k")
            continue
        ms = rng.sample([0, 1, 2], rng.randint(1, 3))
        ents = []
        for j in ms:
            if j != 2 and rng.random() < 0.8:
                ents.append(f"c{j}.{rng.randrange(2**W)}")
                called.add(j)
            else:
                ents.append(f"s{j}")
        if rng.random() < 0.2:
            ents.insert(rng.randrange(len(ents) + 1), "v")
        cmds.append(f"{rng.choice('OUUAA')}:{'+'.join(ents)}")
    # a sampled method that some trigger also calls must not be poked by the other agent
    prog += cmds
    pg = [rng.choice([0.25, 0.5, 0.9]) for _ in range(3)]
    cycles = [([0, 0, 0], [None] * 3, 0)]
    for _ in range(n - 1):
        g = [int(rng.random() < pg[j]) for j in range(3)]
        x = [rng.randrange(2**W) if (j not in called and rng.random() < 0.5) else None for j in range(3)]
        cycles.append((g, x, rng.randrange(2**W)))
    return mk_trig(prog, cycles, tag)


def directed_trig() -> list[Case]:
    N = [None] * 3
    out = []
    # an always-ready method paired with one that becomes ready later: until_done returns at once with (v, None);
    # until_all_done re-issues the first call every cycle until both run together
    cyc = [([0, 0, 0], N, 0)] + [([1, 0, 0], N, k) for k in range(1, 5)] + [([1, 1, 0], N, 5), ([1, 1, 0], N, 6)] + [([1, 0, 1], N, 7)] * 3
    out.append(mk_trig(["k", "U:c0.1+c1.2", "k", "A:c0.3+c1.4", "O:c0.5+c1.6", "U:c1.7+s2+c0.8"], cyc, "directed"))
    # nothing ready for a while, then only the second; sampled method driven by the other agent; plain value sampled
    cyc = [([0, 0, 0], N, 0), ([0, 0, 0], N, 1), ([0, 0, 1], [None, None, 9], 2), ([0, 1, 0], N, 3), ([1, 0, 1], [None, None, 4], 4),
           ([1, 1, 1], [None, None, 5], 5), ([1, 1, 0], N, 6), ([0, 0, 1], [None, None, 7], 7), ([1, 1, 1], N, 8), ([1, 1, 1], N, 9)]
    out.append(mk_trig(["k", "U:c0.1+c1.2", "U:c0.3+s2", "A:c0.1+c1.2+s2", "U:v+c0.9", "A:c1.1+v"], cyc, "directed"))
    return out


# ------------------------------------------------------------------------------------------------
# generators


def mk_case(prog, fn, cycles, delay: str, mock_first: int, tag: str, bound: int = 0) -> Case:
    """cycles: list of (phases, men, val); phases: list of rdy | (rdy, en, data)"""
    e_of = DELAYS[delay][1]
    ops = []
    for k, cyc in enumerate(cycles):
        phases, men, val = cyc[:3]
        xs = list(cyc[3]) if len(cyc) > 3 else [0, 0, 0]
        ps = ",".join(str(p) if isinstance(p, int) else f"{p[0]}x{p[1]}x{p[2]}" for p in phases)
        # the first cycle is the half period before the first edge: the mock enables at time 0, nothing is driven
        e = 0 if k == 0 else e_of
        # environment hypothesis: the shared state changes only before the mock's delay has elapsed
        xs = [xs[min(j, e)] for j in range(3)] if k else [xs[0]] * 3
        ops.append(f"cyc p={ps} e={e} men={men} val={val} x={xs[e]} xs={','.join(map(str, xs))}")
    cfg = f"cfg w={W} fn={','.join(map(str, fn))} prog={','.join(prog) or '-'}"
    desc = {"delay": delay, "mock_first": mock_first, "mode": "cmd" if prog else "raw", "fn": list(fn), "bound": bound}
    return Case(cfg, ops, desc, tag)


def _rand_fn(rng):
    return (rng.choice([1, 1, 3]), rng.choice([0, 1, 5]), rng.choice([0, 1]), rng.choice([0, 1, 1, 2]), rng.choice([0, 2, 3, 3]))


def _rand_xs(rng, prev: int) -> list[int]:
    """shared-state values after each of the three phases (mk_case freezes them once the mock's delay has elapsed)"""
    xs = []
    for _ in range(3):
        if rng.random() < 0.35:
            prev = rng.randrange(2**W)
        xs.append(prev)
    return xs


def gen_cmd(rng, n: int, tag="random") -> Case:
    prog = ["k"]
    for _ in range(rng.randint(2, 10)):
        x = rng.random()
        if x < 0.45:
            prog.append(f"c{rng.randrange(2**W)}")
        elif x < 0.8:
            prog.append(f"t{rng.randrange(2**W)}")
        else:
            prog += ["k"] * rng.randint(1, 3)
    pr = rng.choice([0.3, 0.6, 0.9])
    pe = rng.choice([0.4, 0.8, 1.0])
    cycles = [([0, 0, 0], int(rng.random() < pe), 0)]
    for _ in range(n - 1):
        r = int(rng.random() < pr)
        ph = [r, r, r] if rng.random() < 0.5 else [rng.randint(0, 1) for _ in range(3)]
        xs = _rand_xs(rng, cycles[-1][3][-1] if len(cycles[-1]) > 3 else 0)
        cycles.append((ph, int(rng.random() < pe), rng.randrange(2**W), xs))
    return mk_case(prog, _rand_fn(rng), cycles, rng.choice(list(DELAYS)), rng.randint(0, 1), tag, rng.randint(0, 1))


def gen_raw(rng, n: int, tag="random") -> Case:
    pe = rng.choice([0.5, 0.9, 1.0])
    cycles = [([0, 0, 0], int(rng.random() < pe), 0)]
    en, d = 0, 0
    for _ in range(n - 1):
        ph = []
        steady = rng.random() < 0.4
        for p in range(3):
            if not steady or p == 0:
                if rng.random() < 0.5:
                    en = int(rng.random() < 0.7)
                if rng.random() < 0.5:
                    d = rng.randrange(2**W)
            ph.append((int(rng.random() < 0.8), en, d))
        xs = _rand_xs(rng, cycles[-1][3][-1] if len(cycles[-1]) > 3 else 0)
        cycles.append((ph, int(rng.random() < pe), rng.randrange(2**W), xs))
    return mk_case([], _rand_fn(rng), cycles, rng.choice(list(DELAYS)), rng.randint(0, 1), tag, rng.randint(0, 1))


def directed() -> list[Case]:
    out = []
    for delay in DELAYS:
        for mf in (0, 1):
            # call waits through not-ready cycles, then back-to-back calls, call_try on ready / not ready / mock disabled
            prog = ["k", "c5", "c6", "t7", "t8", "t9", "k", "k", "c10", "k"]
            cyc = [([0, 0, 0], 1, 0), ([0, 0, 0], 1, 1), ([1, 1, 0], 1, 2), ([0, 1, 1], 1, 3), ([1, 1, 1], 1, 4),
                   ([1, 1, 1], 1, 5), ([1, 1, 0], 1, 6), ([1, 1, 1], 0, 7), ([1, 1, 1], 1, 8), ([1, 1, 1], 1, 9),
                   ([1, 1, 1], 0, 10), ([1, 1, 1], 1, 11), ([1, 1, 1], 1, 12), ([1, 1, 1], 1, 13)]
            # the mocked function answers None for some calls (after calls answered with a value)
            out.append(mk_case(prog, (1, 1, 1, 2, 3), cyc, delay, mf, "directed", bound=mf))
            # raw: argument and enable glitch inside the cycle; request dropped before the edge; same arg held for
            # several cycles (no change of data_out between cycles)
            cyc = [([0, 0, 0], 1, 0), ([(1, 1, 3), (1, 1, 4), (1, 1, 5)], 1, 0), ([(1, 1, 5), (1, 1, 5), (1, 0, 5)], 1, 0),
                   ([(1, 1, 9), (1, 1, 9), (1, 1, 9)], 1, 0), ([(1, 1, 9), (1, 1, 9), (1, 1, 9)], 1, 0),
                   ([(1, 1, 9), (0, 1, 9), (1, 1, 9)], 1, 0), ([(1, 1, 9), (1, 1, 9), (1, 1, 9)], 0, 0),
                   ([(1, 0, 1), (1, 1, 2), (1, 1, 2)], 1, 0), ([(1, 1, 2), (1, 1, 2), (1, 1, 2)], 1, 0)]
            out.append(mk_case([], (1, 5, 1, 1, 0), cyc, delay, mf, "directed", bound=1 - mf))
            # class-level mock with delay: a held request (no wire changes) while another testbench updates the shared
            # Python state after the edge; the mock must evaluate after its delay, i.e. with the updated state
            hold = [(1, 1, 9)] * 3
            cyc = [([0, 0, 0], 1, 0, [1, 1, 1]), (hold, 1, 0, [1, 5, 5]), (hold, 1, 0, [5, 5, 8]), (hold, 1, 0, [8, 2, 3]),
                   (hold, 0, 0, [3, 3, 3]), (hold, 1, 0, [3, 6, 6]), (hold, 1, 0, [7, 7, 7])]
            out.append(mk_case([], (1, 0, 1, 1, 2), cyc, delay, mf, "directed", bound=1))
    return out


def run(ctx: Check):
    ctx.rule = (
        "a case = (testbench program of call/call_try/tick or raw adapter pokes, mocked function, mock delay, testbench "
        "order) + per cycle three phases of readiness (and raw en/data), the mock's enable() value and the design input; "
        "non-trivial = a call that waits >= 1 cycle and succeeds, a call_try that returns None, and an executed mock "
        "call with effects all occur (command mode) / the request or argument changes inside a cycle in which the mock "
        "runs (raw mode); trigger mode: program of multi-call CallTriggers (1-3 of three methods called / sampled, plain "
        "value sampled; await / until_done / until_all_done) + per cycle readiness bits and pokes of another agent; "
        "non-trivial = a returned tuple mixes executed and non-executed calls and a call executed in a cycle in which "
        "the trigger did not return"
    )
    ctx.proof_stage()
    rng = ctx.rng("gen")
    cases = []
    cdir = CORPUS / "C43"
    for fn in sorted(cdir.glob("*.json")) if cdir.exists() else []:
        b = json.loads(fn.read_text())
        cases.append(Case(b["cfg"], list(b["ops"]), b["desc"], "corpus"))
    cases += directed()
    n = ctx.pick(60, 2500)
    for i in range(n):
        cases.append(gen_cmd(rng, rng.randint(12, 40)) if i % 2 == 0 else gen_raw(rng, rng.randint(8, 30)))
    cases += directed_trig()
    for _ in range(ctx.pick(40, 1500)):
        cases.append(gen_trig(rng, rng.randint(10, 30)))
    for c in cases:
        ctx.count(f"mode_{c.desc['mode']}")
        if c.desc["mode"] != "trig":
            ctx.count(f"delay_{c.desc['delay']}")
            ctx.count(f"mock_first_{c.desc['mock_first']}")

    def nontrivial(case, out):
        if out[0] != "ok":
            return False
        if case.desc["mode"] == "trig":
            # a trigger with >= 2 calls returned a tuple with both an executed and a non-executed call, and some
            # trigger was awaited for more than one cycle while one of its calls executed
            mixed = any("evt=" in o and "/" in o and "-" in o.split("evt=")[1].split("/") and
                        any(x != "-" for x in o.split("evt=")[1].split("/")) for o in out[1:])
            waited_run = any(o.endswith("evt=-") and "done=000" not in o and "en=000" not in o for o in out[1:])
            return mixed and waited_run
        if case.desc["mode"] == "cmd":
            waited = False
            prev_wait = False
            for o in out[1:]:
                f = dict(x.split("=") for x in o.split())
                if f.get("evt", "-").startswith("c:") and prev_wait:
                    waited = True
                prev_wait = f.get("en") == "1" and f.get("done") == "0" and f.get("evt") == "-"
            return waited and any("evt=t:-" in o for o in out) and any("done=1" in o and "app=-" not in o for o in out)
        for op, o in zip(case.ops, out[1:]):
            c = _parse_cyc(op)
            if "done=1" in o and len({p[1] for p in c["phases"]}) > 1:
                return True
        return False

    def more(case, rng2):
        if case.desc["mode"] == "trig":
            for _ in range(150):
                yield gen_trig(rng2, 25, "search")
            return
        for i in range(120):
            yield gen_cmd(rng2, 30, "search") if case.desc["mode"] == "cmd" or i % 2 else gen_raw(rng2, 24, "search")

    lockstep(ctx, "testbench", "C43", cases, impl, monitor, more, nontrivial, procs=ctx.pick(1, None))
    ctx.note("pysim delta-cycle scheduling is not modelled; both testbench orders and five mock delays are exercised")


def replay(ctx: Check, body: dict):
    from ..lockstep import replay_case

    return replay_case(body, impl, monitor)
