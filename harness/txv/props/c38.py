"""C38 — encoders, multiplexers, selecting network, coding module.

Anchors: transactron/utils/amaranth_ext/elaboratables.py (MultiPriorityEncoder 250-387,
RingMultiPriorityEncoder 390-540, StableSelectingNetwork 543-619, OneHotMux 622-741),
transactron/utils/amaranth_ext/functions.py:331-395 (one_hot_mux, extract_lowest_set_bit),
transactron/utils/amaranth_ext/coding.py.
"""

from __future__ import annotations

import os
import warnings

from ..common import Check
from ..lockstep import Case, lockstep

warnings.filterwarnings("ignore")

META = {
    "id": "C38",
    "design_ref": "DESIGN.md §9 C38, Appendix F",
    "technique": "Lean 4 theorems equating construction-mirroring models (recursive priority tree, ring masking, "
    "pairwise merging network, lowest-set-bit extraction + OR tree, ctz recursion, Gray xor chains) with their "
    "mathematical definitions for every width / output count; correspondence of each model with the real Amaranth "
    "elaboratable evaluated in pysim on all inputs at small widths and random inputs at larger widths",
    "level_text": "c38_mpe, c38_ring, c38_ssn, c38_mux_* , c38_encoder, c38_prio_encoder, c38_decoder, c38_gray_* are "
    "proved for every input width, output count and input valuation; each model is compared with the real component "
    "on every input valuation for widths 1..6 (thorough 1..8; ring encoder 1..4(5)/6 with every first/last) and on "
    "random valuations up to width 64",
    "level_note": "trusted: Lean kernel, axioms propext/Classical.choice/Quot.sound; Amaranth operator semantics "
    "(Switch first match, Array read out of range = 0, unary minus, truncation on assignment) and pysim; harness glue. "
    "Finding F-b3-1 (PriorityEncoder drove o = width for a zero input at non-power-of-two widths) was repaired in "
    "/repo commit c60fe3d; the point is generated and monitored like any other and its witness is a regression case.",
}

# ----------------------------------------------------------------------------- real code runners


def _bits_for_range(w: int) -> int:
    return 0 if w <= 1 else (w - 1).bit_length()


def _split(v: int, width: int, n: int) -> list[int]:
    return [(v >> (width * i)) & ((1 << width) - 1) for i in range(n)]


def _pack(vals: list[int], width: int) -> int:
    return sum((v & ((1 << width) - 1)) << (width * i) for i, v in enumerate(vals))


def _show_list(l) -> str:
    return ",".join(str(int(x)) for x in l) if len(l) else "-"


def _kv(line: str) -> dict:
    return dict(x.split("=") for x in line.split()[1:])


def _ints(s: str) -> list[int]:
    return [] if s in ("", "-") else [int(x) for x in s.split(",")]


def _comb_run(dut, drive, observe, ops):
    """Evaluate a combinational design in pysim for every op: set inputs, let it settle, read outputs."""
    from amaranth.sim import Simulator

    sim = Simulator(dut)
    out: list[str] = []

    async def tb(ctx):
        for op in ops:
            drive(ctx, op)
            await ctx.delay(1e-6)
            out.append(observe(ctx))

    sim.add_testbench(tb)
    sim.run()
    return out


class _MuxFn:
    """Wrapper that applies the *function* one_hot_mux to plain signals."""

    def __init__(self, n, dw, prio, dflt):
        from amaranth import Signal

        self.sel = [Signal(name=f"sel{i}") for i in range(n)]
        self.data = [Signal(dw, name=f"data{i}") for i in range(n)]
        self.default = Signal(dw, name="dflt") if dflt else None
        self.out = Signal(dw, name="out")
        self.prio = prio

    def elaborate(self, platform):
        from amaranth import Module
        from transactron.utils.amaranth_ext.functions import one_hot_mux

        m = Module()
        m.d.comb += self.out.eq(one_hot_mux(list(zip(self.sel, self.data)), default=self.default, priority=self.prio))
        return m


class _Wide:
    """Observes a Value returned by a function-style helper a few bits WIDER than its own shape (signed, so that a
    signed result is sign-extended and an unsigned one zero-extended) and records the shape of the returned Value."""

    def __init__(self, ins, res):
        from amaranth import Signal, Value, signed

        self.ins = ins
        self.res = Value.cast(res)
        self.shape = self.res.shape()
        self.out = Signal(signed(self.shape.width + 4), name="wide_out")
        self.sub = None

    def elaborate(self, platform):
        from amaranth import Module

        m = Module()
        if self.sub is not None:
            m.submodules.dut = self.sub
        m.d.comb += self.out.eq(self.res)
        return m


def _shape(txt: str):
    from amaranth import signed, unsigned

    return (signed if txt[0] == "s" else unsigned)(int(txt[1:]))


def _wide_tail(top):
    tail = f" w={top.shape.width} sg={int(top.shape.signed)}"
    return tail


def _elaboratable(cls):
    from amaranth import Elaboratable

    return type(cls.__name__, (cls, Elaboratable), {})


def impl(case: Case) -> list[str]:
    d = case.desc
    comp = d["comp"]
    ops = [_kv(l) for l in case.ops]
    try:
        res = _impl(comp, d, ops)
    except Exception as e:  # noqa: BLE001 - an exception of the real code is an observation
        res = [f"raise {type(e).__name__}"] * len(ops)
    return ["ok", *res]


def _impl(comp: str, d: dict, ops: list[dict]) -> list[str]:
    from transactron.utils.amaranth_ext import coding, elaboratables

    if comp in ("mpe", "ring"):
        w, k = d["w"], d["k"]
        ow = _bits_for_range(w)
        dut = (elaboratables.MultiPriorityEncoder if comp == "mpe" else elaboratables.RingMultiPriorityEncoder)(w, k)
        outs, vals = dut.outputs.as_value(), dut.valids

        def drive(ctx, op):
            ctx.set(dut.input, int(op["x"]))
            if comp == "ring":
                ctx.set(dut.first, int(op["f"]))
                ctx.set(dut.last, int(op["l"]))

        def observe(ctx):
            return f"out={_show_list(_split(ctx.get(outs), ow, k))} val={ctx.get(vals)}"

        return _comb_run(dut, drive, observe, ops)
    if comp == "ssn":
        n, dw = d["w"], d["dw"]
        dut = elaboratables.StableSelectingNetwork(n, dw)
        ins, outs = dut.inputs.as_value(), dut.outputs.as_value()

        def drive(ctx, op):
            ctx.set(ins, _pack(_ints(op["d"]), dw))
            ctx.set(dut.valids, int(op["v"]))

        def observe(ctx):
            return f"out={_show_list(_split(ctx.get(outs), dw, n))} cnt={ctx.get(dut.output_cnt)}"

        return _comb_run(dut, drive, observe, ops)
    if comp in ("mux", "muxc"):
        n, dw, prio, dflt = d["w"], d["dw"], bool(d["prio"]), bool(d["dflt"])
        if comp == "mux":
            dut = _elaboratable(_MuxFn)(n, dw, prio, dflt)

            def drive(ctx, op):
                s = int(op["s"])
                for i, v in enumerate(_ints(op["d"])):
                    ctx.set(dut.sel[i], (s >> i) & 1)
                    ctx.set(dut.data[i], v)
                if dflt:
                    ctx.set(dut.default, int(op["df"]))

            out_sig = dut.out
        else:
            dut = elaboratables.OneHotMux(dw, n, priority=prio, has_default=dflt)
            ins = dut.inputs.as_value()

            def drive(ctx, op):
                ctx.set(dut.select, int(op["s"]))
                ctx.set(ins, _pack(_ints(op["d"]), dw))
                if dflt:
                    ctx.set(dut.default_input, int(op["df"]))

            out_sig = dut.output

        return _comb_run(dut, drive, lambda ctx: f"out={ctx.get(out_sig)}", ops)
    if comp in ("muxz", "muxcz"):
        from amaranth import Signal
        from transactron.utils.amaranth_ext.functions import one_hot_mux

        shps, dshp, prio = d["shp"], d["dshp"], bool(d["prio"])
        n = len(shps)
        if comp == "muxz":
            sel = [Signal(name=f"sel{i}") for i in range(n)]
            data = [Signal(_shape(t), name=f"data{i}") for i, t in enumerate(shps)]
            dflt = Signal(_shape(dshp), name="dflt") if dshp else None
            top = _elaboratable(_Wide)(None, one_hot_mux(list(zip(sel, data)), default=dflt, priority=prio))

            def drive(ctx, op):
                sv = int(op["s"])
                for i, v in enumerate(_ints(op["d"])):
                    ctx.set(sel[i], (sv >> i) & 1)
                    ctx.set(data[i], v)
                if dflt is not None:
                    ctx.set(dflt, int(op["df"]))
        else:
            shape = _shape(shps[0] if shps else dshp)
            dut = elaboratables.OneHotMux(shape, n, priority=prio, has_default=bool(dshp))
            top = _elaboratable(_Wide)(None, dut.output)
            top.sub = dut
            ins = dut.inputs.as_value()

            def drive(ctx, op):
                ctx.set(dut.select, int(op["s"]))
                ctx.set(ins, _pack(_ints(op["d"]), shape.width))
                if dshp:
                    ctx.set(dut.default_input, int(op["df"]))

        tail = _wide_tail(top)
        return _comb_run(top, drive, lambda ctx: f"out={ctx.get(top.out)}{tail}", ops)
    w = d["w"]
    if comp in ("lsb", "ctz"):
        from amaranth import Signal, signed
        from transactron.utils.amaranth_ext.functions import count_trailing_zeros, extract_lowest_set_bit

        x = Signal(signed(w) if d.get("sg") else w, name="x")
        top = _elaboratable(_Wide)(None, (extract_lowest_set_bit if comp == "lsb" else count_trailing_zeros)(x))
        tail = _wide_tail(top)

        def drive(ctx, op):
            v = int(op["x"])
            ctx.set(x, v - (1 << w) if d.get("sg") and v >= 1 << (w - 1) else v)

        return _comb_run(top, drive, lambda ctx: f"o={ctx.get(top.out)}{tail}", ops)
    if comp in ("enc", "penc"):
        dut = (coding.Encoder if comp == "enc" else coding.PriorityEncoder)(w)
        return _comb_run(dut, lambda ctx, op: ctx.set(dut.i, int(op["x"])),
                         lambda ctx: f"o={ctx.get(dut.o)} n={ctx.get(dut.n)}", ops)
    if comp in ("dec", "pdec"):
        dut = (coding.Decoder if comp == "dec" else coding.PriorityDecoder)(w)

        def drive(ctx, op):
            ctx.set(dut.i, int(op["x"]))
            ctx.set(dut.n, int(op["n"]))

        return _comb_run(dut, drive, lambda ctx: f"o={ctx.get(dut.o)}", ops)
    if comp in ("genc", "gdec"):
        dut = (coding.GrayEncoder if comp == "genc" else coding.GrayDecoder)(w)
        return _comb_run(dut, lambda ctx, op: ctx.set(dut.i, int(op["x"])), lambda ctx: f"o={ctx.get(dut.o)}", ops)
    raise ValueError(comp)


# ----------------------------------------------------------------------------- property monitor


def _set_bits(x: int, w: int) -> list[int]:
    return [i for i in range(w) if (x >> i) & 1]


def _check_first_k(tag: str, expected: list[int], k: int, f: dict) -> str | None:
    """outputs/valids must present the first k elements of `expected` with a prefix of valid flags"""
    outs, val = _ints(f["out"]), int(f["val"])
    m = min(len(expected), k)
    if val != (1 << m) - 1:
        return f"{tag}: valids={val:#b}, expected {m} leading valid flags"
    if outs[:m] != expected[:m]:
        return f"{tag}: outputs={outs} valids={val:#b}, expected first set bits {expected[:m]}"
    return None


def monitor(case: Case, out: list[str]):
    """Direct transcription of the property sentence on the implementation's observations."""
    d = case.desc
    comp, w = d["comp"], d["w"]
    for idx, (line, o) in enumerate(zip(case.ops, out[1:])):
        op = _kv(line)
        if o.startswith("raise"):
            if comp in ("mux", "muxc", "muxz", "muxcz") and w == 0 and not d.get("dflt", d.get("dshp")) and o == "raise ValueError":
                continue  # documented: no inputs and no default is rejected
            return f"{comp} {case.cfg}: real code raised on {line!r}: {o}"
        f = dict(x.split("=") for x in o.split())
        tag = f"{comp} [{case.cfg}] input {line!r}"
        if comp == "mpe":
            r = _check_first_k(tag, _set_bits(int(op["x"]), w), d["k"], f)
            if r:
                return r
        elif comp == "ring":
            x, fi, la = int(op["x"]), int(op["f"]), int(op["l"])
            if fi >= w or la >= w:
                continue  # first/last outside range(input_width): not covered by the property
            order = list(range(fi, la)) if fi <= la else list(range(fi, w)) + list(range(0, la))
            r = _check_first_k(tag, [j for j in order if (x >> j) & 1], d["k"], f)
            if r:
                return r
        elif comp == "ssn":
            data, v = _ints(op["d"]), int(op["v"])
            exp = [data[i] for i in range(w) if (v >> i) & 1]
            outs, cnt = _ints(f["out"]), int(f["cnt"])
            if cnt != len(exp) or outs[:cnt] != exp:
                return f"{tag}: outputs={outs} count={cnt}, expected valid inputs {exp}"
        elif comp in ("mux", "muxc"):
            s, data, got = int(op["s"]), _ints(op["d"]), int(f["out"])
            if s == 0:
                if d["dflt"]:
                    exp = int(op["df"])
                elif comp == "mux":
                    continue  # one_hot_mux docstring: without default the output is undefined when nothing is selected
                elif w == 1:
                    exp = data[0]  # OneHotMux docstring: "the only value if inputs_count == 1"
                else:
                    exp = 0  # OneHotMux docstring: zero vector without default
            elif d["prio"]:
                exp = data[_set_bits(s, w)[0]]
            elif s & (s - 1) == 0:
                exp = data[_set_bits(s, w)[0]]
            else:
                continue  # several select bits without priority: undefined by the documentation
            if got != exp:
                return f"{tag}: output={got}, expected {exp}"
        elif comp in ("muxz", "muxcz"):
            sv, data, got = int(op["s"]), _ints(op["d"]), int(f["out"])
            shapes = list(d["shp"]) + ([d["dshp"]] if d["dshp"] else [])
            if sv == 0:
                if not d["dshp"]:
                    continue
                exp = int(op["df"])
            elif d["prio"] or sv & (sv - 1) == 0:
                exp = data[_set_bits(sv, w)[0]]
            else:
                continue
            if got != exp:
                return (f"{tag}: the returned value read {int(f['w'])}+4 bits wide is {got}, expected the selected "
                        f"operand {exp} (operand shapes {shapes})")
            # the shape of the returned Value must be able to represent every operand
            rw, rs = int(f["w"]), int(f["sg"])
            for t in shapes:
                need = int(t[1:]) + (1 if rs and t[0] == "u" else 0)
                if (t[0] == "s" and not rs) or rw < need:
                    return f"{tag}: returned shape {'signed' if rs else 'unsigned'}({rw}) cannot represent operand shape {t}"
            if comp == "muxcz" and (rw, rs) != (int(shapes[0][1:]), int(shapes[0][0] == "s")):
                return f"{tag}: OneHotMux output shape is {'signed' if rs else 'unsigned'}({rw}), declared {shapes[0]}"
        elif comp == "lsb":
            x = int(op["x"])
            if (int(f["o"]), int(f["w"]), int(f["sg"])) != (x & -x, w, 0):
                return f"{tag}: o={f['o']} shape=({f['w']},{f['sg']}), expected {x & -x} as unsigned({w})"
        elif comp == "ctz":
            x = int(op["x"])
            exp = _set_bits(x, w)[0] if x else w
            if int(f["o"]) != exp or int(f["sg"]) != 0 or (1 << int(f["w"])) <= w:
                return f"{tag}: o={f['o']} shape=({f['w']},{f['sg']}), expected {exp} in an unsigned value able to hold {w}"
        elif comp == "enc":
            x = int(op["x"])
            onehot = x != 0 and x & (x - 1) == 0
            exp = (x.bit_length() - 1, 0) if onehot else (0, 1)
            if (int(f["o"]), int(f["n"])) != exp:
                return f"{tag}: o={f['o']} n={f['n']}, expected o={exp[0]} n={exp[1]}"
        elif comp == "penc":
            x = int(op["x"])
            exp = (_set_bits(x, w)[0], 0) if x else (0, 1)
            if (int(f["o"]), int(f["n"])) != exp:
                return f"{tag}: o={f['o']} n={f['n']}, expected o={exp[0]} n={exp[1]}"
        elif comp in ("dec", "pdec"):
            i, n = int(op["x"]), int(op["n"])
            exp = 0 if n or i >= w else 1 << i
            if int(f["o"]) != exp:
                return f"{tag}: o={int(f['o']):#b}, expected {exp:#b}"
        elif comp == "genc":
            x = int(op["x"])
            if int(f["o"]) != x ^ (x >> 1):
                return f"{tag}: o={f['o']}, expected {x ^ (x >> 1)}"
        elif comp == "gdec":
            x = int(op["x"])
            y, sh = x, x >> 1
            while sh:
                y ^= sh
                sh >>= 1
            if int(f["o"]) != y:
                return f"{tag}: o={f['o']}, expected {y} (the value whose Gray code is {x})"
    return None


# ----------------------------------------------------------------------------- generators

NAMES = {"mpe": "MultiPriorityEncoder", "ring": "RingMultiPriorityEncoder", "ssn": "StableSelectingNetwork",
         "mux": "one_hot_mux", "muxc": "OneHotMux", "enc": "Encoder", "penc": "PriorityEncoder", "dec": "Decoder",
         "pdec": "PriorityDecoder", "genc": "GrayEncoder", "gdec": "GrayDecoder", "muxz": "one_hot_mux", "muxcz": "OneHotMux",
         "lsb": "extract_lowest_set_bit", "ctz": "count_trailing_zeros"}


def _case(comp: str, cfg: str, ops: list[str], tag: str, **desc) -> Case:
    return Case(f"cfg comp={comp} {cfg}", ops, {"component": NAMES[comp], "comp": comp, **desc}, tag)


def _rand_x(rng, w: int) -> int:
    """random bit vector with a varied density (uniform vectors of width 64 almost never have few set bits)"""
    style = rng.randrange(5)
    if style == 0:
        return rng.getrandbits(w)
    if style == 1:
        return rng.getrandbits(w) & rng.getrandbits(w) & rng.getrandbits(w)
    if style == 2:
        return (rng.getrandbits(w) | rng.getrandbits(w) | rng.getrandbits(w)) & ((1 << w) - 1)
    if style == 3:
        return 1 << rng.randrange(w)
    return (1 << rng.randrange(w)) | (1 << rng.randrange(w))


def _split_cases(comp, cfg, ops, tag, chunk=1500, **desc) -> list[Case]:
    return [_case(comp, cfg, ops[i : i + chunk], tag, **desc) for i in range(0, max(len(ops), 1), chunk)]


def gen_mpe(ctx: Check) -> list[Case]:
    rng = ctx.rng("mpe")
    cases = []
    for w in range(1, ctx.pick(6, 8) + 1):
        for k in range(1, ctx.pick(3, 4) + 1):
            cases += _split_cases("mpe", f"w={w} k={k}", [f"in x={x}" for x in range(1 << w)], "exhaustive", w=w, k=k)
    big = [(w, k) for w in [9, 10, 12, 13, 16, 17, 24, 31, 32, 33, 48, 63, 64] for k in [1, 2, 3, 4, 5, 8]]
    for w, k in ctx.pick([(6, 2), (7, 4), (12, 3), (17, 5), (33, 1), (64, 3)], big):
        xs = [0, (1 << w) - 1, 1 << (w - 1), 1] + [_rand_x(rng, w) for _ in range(ctx.pick(80, 200))]
        cases.append(_case("mpe", f"w={w} k={k}", [f"in x={x}" for x in xs], "random", w=w, k=k))
    return cases


def gen_ring(ctx: Check) -> list[Case]:
    rng = ctx.rng("ring")
    cases = []
    for w in range(1, ctx.pick(5, 6) + 1):
        fl = 1 << _bits_for_range(w)  # every value the `first`/`last` signals can hold (>= w: outside the property)
        for k in range(1, 4):
            if ctx.quick and w == 5 and k != 2:
                continue  # quick tier: width 5 (2048 valuations) with one output count only
            ops = [f"in x={x} f={f} l={l}" for x in range(1 << w) for f in range(fl) for l in range(fl)]
            cases += _split_cases("ring", f"w={w} k={k}", ops, "exhaustive", w=w, k=k)
    big = [(w, k) for w in [7, 8, 9, 12, 15, 16, 17, 31, 32, 33, 64] for k in [1, 2, 3, 4, 6]]
    for w, k in ctx.pick([(6, 3), (7, 1), (12, 2), (33, 4), (64, 2)], big):
        ops = []
        for _ in range(ctx.pick(150, 400)):
            x = _rand_x(rng, w) if rng.random() < 0.7 else (1 << w) - 1
            f, l = rng.randrange(w), rng.randrange(w)
            if rng.random() < 0.15:
                l = f
            ops.append(f"in x={x} f={f} l={l}")
        cases.append(_case("ring", f"w={w} k={k}", ops, "random", w=w, k=k))
    return cases


def gen_ssn(ctx: Check) -> list[Case]:
    rng = ctx.rng("ssn")
    cases = []
    for n in range(1, ctx.pick(6, 9) + 1):
        dw = rng.choice([3, 4, 8])
        ops = []
        for v in range(1 << n):
            for _ in range(2):
                data = [rng.randrange(1, 1 << dw) for _ in range(n)]
                ops.append(f"in d={_show_list(data)} v={v}")
        cases += _split_cases("ssn", f"n={n}", ops, "exhaustive", w=n, dw=dw)
    for n in ctx.pick([7, 11, 20], [10, 11, 12, 13, 16, 17, 24, 32]):
        dw = rng.choice([5, 8, 16])
        ops = []
        for _ in range(ctx.pick(80, 300)):
            data = [rng.randrange(1, 1 << dw) for _ in range(n)]
            ops.append(f"in d={_show_list(data)} v={_rand_x(rng, n)}")
        cases.append(_case("ssn", f"n={n}", ops, "random", w=n, dw=dw))
    return cases


def gen_mux(ctx: Check) -> list[Case]:
    rng = ctx.rng("mux")
    cases = []

    def ops_for(n, dw, dflt, sels):
        ops = []
        for s in sels:
            # pairwise distinct non-zero data so that the selected input is identifiable
            data = rng.sample(range(1, 1 << dw), n) if n < (1 << dw) - 1 else [rng.randrange(1 << dw) for _ in range(n)]
            df = rng.randrange(1, 1 << dw)
            ops.append(f"in s={s} d={_show_list(data)}" + (f" df={df}" if dflt else ""))
        return ops

    for comp in ("mux", "muxc"):
        for prio in (0, 1):
            for dflt in (0, 1):
                small = range(0, 9) if ctx.thorough else ([0, 1, 2, 3, 4, 5] if comp == "muxc" else [0, 1, 2, 4])
                for n in small:
                    dw = rng.choice([4, 6, 8])
                    sels = [s for s in range(1 << n) for _ in range(2 if n <= 4 else 1)]
                    cases.append(_case(comp, f"n={n} prio={prio} dflt={dflt}", ops_for(n, dw, dflt, sels), "exhaustive",
                                       w=n, dw=dw, prio=prio, dflt=dflt))
                big = [9, 12, 16, 17, 32, 33, 64] if ctx.thorough else ([33] if (comp == "muxc") == (prio == dflt) else [12])
                for n in big:
                    dw = rng.choice([8, 16, 32])
                    sels = [0, 1, 1 << (n - 1)] + [_rand_x(rng, n) for _ in range(ctx.pick(60, 200))]
                    cases.append(_case(comp, f"n={n} prio={prio} dflt={dflt}", ops_for(n, dw, dflt, sels), "random",
                                       w=n, dw=dw, prio=prio, dflt=dflt))
    return cases


def _rand_in_shape(rng, t: str) -> int:
    wd = int(t[1:])
    if t[0] == "u":
        return rng.randrange(1, 1 << wd) if wd else 0
    lo, hi = -(1 << (wd - 1)), (1 << (wd - 1)) - 1
    return rng.choice([rng.randint(lo, -1), rng.randint(lo, -1), lo, -1, rng.randint(lo, hi)])  # mostly negative


def gen_typed(ctx: Check) -> list[Case]:
    """signed / mixed-width operands for one_hot_mux and OneHotMux, and the other Value-returning helpers; every
    result is observed 4 bits wider than the returned Value's own shape, whose width/signedness is recorded"""
    rng = ctx.rng("typed")
    cases = []
    lists = [(["s4", "s4", "s4"], "s4"), (["u5", "s4", "s3"], "u2"), (["s8", "u3"], "s6"), (["s4"], "s5"), (["u4", "u6"], "s3")]
    if ctx.thorough:
        lists += [(["s2", "u1", "s7", "u7"], "u8"), (["s16"] * 5, "s16"), (["u3", "s3", "u3", "s3", "s5", "u6"], "s1"), ([], "s4")]
    for shps, dshp in lists:
        for prio in (0, 1):
            for ds in (dshp, None):
                n = len(shps)
                if n == 0 and ds is None:
                    continue
                ops = []
                for sv in range(1 << n):
                    for _ in range(ctx.pick(3, 8)):
                        data = [_rand_in_shape(rng, t) for t in shps]
                        ops.append(f"in s={sv} d={_show_list(data)}" + (f" df={_rand_in_shape(rng, ds)}" if ds else ""))
                cases.append(_case("muxz", f"prio={prio} shp={','.join(shps) or '-'} dshp={ds or '-'}", ops, "exhaustive",
                                   w=n, shp=shps, dshp=ds, prio=prio))
    for t, n in ctx.pick([("s4", 3), ("s6", 2)], [("s4", 3), ("s6", 2), ("s3", 5), ("s12", 4), ("s1", 2)]):
        for prio in (0, 1):
            for ds in (t, None):
                ops = []
                for sv in range(1 << n):
                    for _ in range(ctx.pick(3, 8)):
                        data = [_rand_in_shape(rng, t) for _ in range(n)]
                        ops.append(f"in s={sv} d={_show_list(data)}" + (f" df={_rand_in_shape(rng, t)}" if ds else ""))
                cases.append(_case("muxcz", f"prio={prio} shp={','.join([t] * n)} dshp={ds or '-'}", ops, "exhaustive",
                                   w=n, shp=[t] * n, dshp=ds, prio=prio))
    for comp in ("lsb", "ctz"):
        for w in range(1, ctx.pick(5, 8) + 1):
            cases.append(_case(comp, f"w={w}", [f"in x={x}" for x in range(1 << w)], "exhaustive", w=w, sg=0))
        cases.append(_case(comp, "w=4 sg=1", [f"in x={x}" for x in range(16)], "exhaustive", w=4, sg=1))  # signed argument
        for w in ctx.pick([13, 33], [9, 13, 16, 17, 33, 64]):
            xs = [0, 1, 1 << (w - 1), (1 << w) - 1] + [_rand_x(rng, w) for _ in range(ctx.pick(60, 200))]
            cases.append(_case(comp, f"w={w}", [f"in x={x}" for x in xs], "random", w=w, sg=0))
    return cases


def gen_coding(ctx: Check) -> list[Case]:
    rng = ctx.rng("coding")
    cases = []
    small = range(1, ctx.pick(6, 9) + 1)
    big = ctx.pick([12, 20, 64], [10, 12, 16, 17, 31, 32, 33, 63, 64])
    for w in [*small, *big]:
        ex = w in small
        tag = "exhaustive" if ex else "random"
        n_r = ctx.pick(80, 300)
        xs = list(range(1 << w)) if ex else [0, 1, 1 << (w - 1), (1 << w) - 1] + [_rand_x(rng, w) for _ in range(n_r)]
        cases += _split_cases("enc", f"w={w}", [f"in x={x}" for x in xs], tag, w=w)
        # the zero input is included for every width (o must be 0 there: repaired finding F-b3-1)
        cases += _split_cases("penc", f"w={w}", [f"in x={x}" for x in xs], tag, w=w)
        iw = 1 << _bits_for_range(w)
        iv = list(range(iw)) if ex else [0, w - 1, iw - 1] + [rng.randrange(iw) for _ in range(n_r)]
        for comp in ("dec", "pdec"):
            cases += _split_cases(comp, f"w={w}", [f"in x={i} n={n}" for i in iv for n in (0, 1)], tag, w=w)
        gx = xs if ex else [rng.getrandbits(w) for _ in range(n_r)] + [0, (1 << w) - 1]
        for comp in ("genc", "gdec"):
            # GrayDecoder's xor chain is a nested expression of quadratic size: simulating width 64 costs 10 s of CPU,
            # so the decoder is compared up to width 20 (quick) / 33 (thorough); the theorem covers every width
            if comp == "gdec" and w > ctx.pick(20, 33):
                continue
            cases += _split_cases(comp, f"w={w}", [f"in x={x}" for x in gx], tag, w=w)
    # directed: PriorityEncoder with a zero input at widths that are not powers of two (and some that are)
    for w in ctx.pick([3, 6, 7, 9, 33], [3, 5, 6, 7, 9, 10, 11, 12, 13, 15, 17, 33, 48, 63, 65]):
        cases.append(_case("penc", f"w={w}", ["in x=0", f"in x={1 << (w - 1)}", "in x=0", "in x=1"], "directed", w=w))
    return cases


def more_cases(case: Case, rng):
    """targeted search after a divergence: many more inputs for the diverging configuration"""
    d = case.desc
    comp, w = d["comp"], d["w"]
    for _ in range(8):
        ops = []
        for _ in range(300):
            if comp == "mpe":
                ops.append(f"in x={_rand_x(rng, w)}")
            elif comp == "ring":
                ops.append(f"in x={_rand_x(rng, w)} f={rng.randrange(w)} l={rng.randrange(w)}")
            elif comp == "ssn":
                data = [rng.randrange(1, 1 << d["dw"]) for _ in range(w)]
                ops.append(f"in d={_show_list(data)} v={_rand_x(rng, w)}")
            elif comp in ("muxz", "muxcz"):
                if w == 0:
                    return
                data = [_rand_in_shape(rng, t) for t in d["shp"]]
                ops.append(f"in s={_rand_x(rng, w) if rng.random() < 0.8 else 0} d={_show_list(data)}"
                           + (f" df={_rand_in_shape(rng, d['dshp'])}" if d["dshp"] else ""))
            elif comp in ("mux", "muxc"):
                if w == 0:
                    return
                data = [rng.randrange(1, 1 << d["dw"]) for _ in range(w)]
                s = _rand_x(rng, w) if rng.random() < 0.8 else 0
                ops.append(f"in s={s} d={_show_list(data)}" + (f" df={rng.randrange(1, 1 << d['dw'])}" if d["dflt"] else ""))
            elif comp in ("dec", "pdec"):
                ops.append(f"in x={rng.randrange(1 << _bits_for_range(w))} n={rng.randrange(2)}")
            elif comp == "penc":
                ops.append(f"in x={_rand_x(rng, w) if rng.random() < 0.8 else 0}")
            else:
                ops.append(f"in x={_rand_x(rng, w) if rng.random() < 0.7 else rng.getrandbits(w)}")
        yield Case(case.cfg, ops, d, "search")


def nontrivial(case: Case, out: list[str]) -> bool:
    """the case contains an input on which the interesting branch is taken"""
    d = case.desc
    comp, w = d["comp"], d["w"]
    ops = [_kv(l) for l in case.ops]
    if comp in ("mpe", "ring"):  # more set bits than outputs, and fewer (invalid outputs), both occur
        cnt = [bin(int(o["x"])).count("1") for o in ops]
        wrap = comp == "mpe" or any(int(o["f"]) > int(o["l"]) for o in ops)
        return wrap and any(c > d["k"] for c in cnt) and any(c < d["k"] for c in cnt)
    if comp == "ssn":
        return any(0 < bin(int(o["v"])).count("1") < w for o in ops) or w == 1
    if comp in ("mux", "muxc"):
        return any(int(o["s"]) & (int(o["s"]) - 1) for o in ops) and any(int(o["s"]) == 0 for o in ops)
    if comp in ("muxz", "muxcz"):  # a negative operand is selected somewhere and the select vector is multi-hot somewhere
        return any(v < 0 for o in ops for v in _ints(o["d"])) and any(int(o["s"]) & (int(o["s"]) - 1) for o in ops)
    if comp in ("enc", "penc", "lsb", "ctz"):
        return any(int(o["x"]) & (int(o["x"]) - 1) for o in ops)
    return len(ops) > 1


def _desc_from_cfg(cfg: str) -> dict:
    """descriptor of a case from its `cfg …` line alone (witnesses in known_findings.txt carry no desc)"""
    t = dict(x.split("=") for x in cfg.split()[1:])
    comp = t["comp"]
    d = {"component": NAMES[comp], "comp": comp, "w": int(t.get("w", t.get("n", 0)))}
    if "k" in t:
        d["k"] = int(t["k"])
    if comp in ("muxz", "muxcz"):
        shp = [] if t.get("shp", "-") == "-" else t["shp"].split(",")
        d.update(prio=int(t.get("prio", 0)), shp=shp, dshp=None if t.get("dshp", "-") == "-" else t["dshp"], w=len(shp))
    if comp in ("lsb", "ctz"):
        d["sg"] = int(t.get("sg", 0))
    if comp in ("mux", "muxc"):
        d.update(prio=int(t.get("prio", 0)), dflt=int(t.get("dflt", 0)))
    if comp in ("mux", "muxc", "ssn"):
        d["dw"] = 16
    return d


def replay_witness(w: dict):
    """witness of a finding: {"cfg":…, "ops":[…]} (optionally with "desc"); returns the property failure or None"""
    desc = {**_desc_from_cfg(w["cfg"]), **w.get("desc", {})}
    case = Case(w["cfg"], list(w["ops"]), desc, "witness")
    return monitor(case, impl(case))


# the witness of repaired finding F-b3-1, also run as an ordinary regression case on every invocation
F_B3_1_WITNESS = {"cfg": "cfg comp=penc w=3", "ops": ["in x=0"]}


def _corpus(pid: str) -> list[Case]:
    """directed cases / minimised past failures from corpus/<pid>/*.json, run first"""
    import json

    from ..common import CORPUS

    out = []
    for f in sorted((CORPUS / pid).glob("*.json")):
        b = json.loads(f.read_text())
        out.append(Case(b["cfg"], list(b["ops"]), b.get("desc", {}), "corpus"))
    return out


def run(ctx: Check):
    ctx.rule = ("case = (component class, width / output count / priority / default configuration, list of input "
                "valuations); every input valuation is one evaluation; non-trivial = the list contains inputs on both "
                "sides of the interesting branch (more and fewer set bits than outputs, wrap-around first > last, "
                "multi-hot and empty select, non-one-hot encoder input); distinct by (configuration, inputs)")
    ctx.proof_stage()
    ctx.replay_findings(replay_witness)
    procs = ctx.pick(1, 8)  # quick: serial (10 s of CPU; a fork pool is slower on a loaded machine)
    regression = [Case(F_B3_1_WITNESS["cfg"], list(F_B3_1_WITNESS["ops"]), _desc_from_cfg(F_B3_1_WITNESS["cfg"]), "corpus")]
    groups = [("corpus", _corpus("C38") + regression), ("mpe", gen_mpe(ctx)), ("ring", gen_ring(ctx)),
              ("ssn", gen_ssn(ctx)), ("mux", gen_mux(ctx)), ("typed", gen_typed(ctx)), ("coding", gen_coding(ctx))]
    only = os.environ.get("TXV_C38_GROUPS")  # debugging aid (mutation testing): restrict to some groups
    if only:
        groups = [g for g in groups if g[0] in only.split(",")]
        ctx.note(f"restricted to groups {only}")
    cases = []
    for name, cs in groups:
        for c in cs:
            ctx.count(f"inputs_{c.desc['comp']}", len(c.ops))
        cases += cs
    # one correspondence run (one worker pool, one Lean driver start); the cfg line of a report names the component
    lockstep(ctx, "encoders-mux-network-coding", "C38", cases, impl, monitor, more_cases, nontrivial, procs=procs, max_reports=4)
    ctx.exhaustive = False
    ctx.note("exhaustive over input valuations for the small widths listed in the distribution; data words of the "
             "multiplexer / selecting network are random (pairwise distinct, non-zero)")


def replay(ctx: Check, body: dict):
    from ..lockstep import replay_case

    return replay_case(body, impl, monitor)
