"""C08 - Conflict priorities are respected (transactron/core/manager.py, schedulers.py, tmodule.py, method.py)."""

from __future__ import annotations

from ..common import Check

META = {
    "id": "C08",
    "design_ref": "DESIGN.md §6 C08 (model: §6.1, correspondence: §6.2)",
    "technique": "Lean 4 theorems over a hand-written executable model of the transaction manager "
    "(TxV/Model/Ctrl, Design, Manager, Sched); correspondence of that model with the real manager on randomly "
    "generated designs built with the real API, over sampled/exhaustive input valuations in pysim",
    "level_text": "theorems in TxV/Props/C08.lean (written by the theory component) quantify over every flat design, "
    "valuation and consistent run assignment; the model is tied to the code by comparing reject kind / MethodMap / "
    "conflict graph / validity of the implementation's priority order and, per valuation, runnable, run, active call "
    "sites, data_in, data_out and call results of every body and site",
    "level_note": "trusted: Lean kernel; Amaranth control-flow semantics and pysim; the harness glue (interpreter of "
    "abstract designs, extraction from Body objects). Monitor: per valuation and prioritised add_conflict: both sides fully enabled and the lower side runs => the higher side does not run and another transaction conflicting with it runs; schedule_before never blocks.",
}


def run(ctx: Check):
    from ..core.check import run_core

    run_core(ctx, "C08")


def replay(ctx: Check, body: dict):
    from ..core.check import replay_core

    return replay_core(ctx, "C08", body)
