"""C42 — DependencyManager keys behave as documented
(transactron/utils/dependencies.py:57-150, transactron/lib/dependencies.py:11-35)."""

from __future__ import annotations

import itertools
import types
from dataclasses import dataclass
from typing import Optional

from ..common import Check
from ..lockstep import Case, lockstep, replay_case

META = {
    "id": "C42",
    "design_ref": "DESIGN.md §8 C42",
    "technique": "Lean 4 theorems over a hand-written state-machine model of DependencyManager (three dictionaries: "
    "dependencies, cache, locked) refined to a history-level specification without cache; lock-step correspondence "
    "of the model with the real class on generated add/get/get_optional sequences",
    "level_text": "c42_refines (model = cache-free history specification for every key configuration and every history), "
    "c42_list_order/c42_list_all, c42_simple, c42_unifier, c42_lock_on_get/c42_add_ok, c42_no_stale, "
    "c42_cache_irrelevant are proved for all histories over any number of keys of every kind and flag combination; "
    "the model is tied to the code by comparing every answer (value / None / exception class) of the real "
    "DependencyManager with real SimpleKey/ListKey/UnifierKey subclasses on random histories and on all histories "
    "up to a length bound over one key of every configuration",
    "level_note": "trusted: Lean kernel, axioms propext/Classical.choice/Quot.sound; Python dict/set/dataclass semantics; "
    "the harness glue. Not modelled: DependencyContext (a stack of managers), aliasing of the list object returned "
    "by ListKey.combine (the harness snapshots results at return time), the Unifier hardware built by a real "
    "UnifierKey (a recording stand-in is passed as `unifier=`).",
}

# documented defaults of the three key base classes: (lock_on_get, cache, empty_valid)
DOC_DEFAULTS = {"s": (1, 1, 0), "l": (1, 1, 1), "u": (1, 0, 0)}


# ----------------------------------------------------------------------------- real keys
class _RecUnifier:
    """Stand-in for `Unifier`: records the method list it was built from."""

    def __init__(self, data):
        self.data = list(data)
        self.method = ("unified-method", id(self))


_cls_cache: dict[tuple, type] = {}


def _key_class(kind: str, lock: int, cache: int, ev: int, dflt: Optional[int], inherit: bool):
    """A concrete frozen-dataclass key class.  With `inherit` the flags that equal the documented
    defaults are NOT overridden, so the defaults of the real base classes are what is exercised."""
    from transactron.lib.dependencies import ListKey, SimpleKey, UnifierKey

    ck = (kind, lock, cache, ev, dflt, inherit)
    if ck in _cls_cache:
        return _cls_cache[ck]
    base = {"s": SimpleKey, "l": ListKey, "u": UnifierKey}[kind]
    ns: dict = {"__annotations__": {"ident": int}}
    dl, dc, de = DOC_DEFAULTS[kind]
    if not (inherit and lock == dl):
        ns["lock_on_get"] = bool(lock)
    if not (inherit and cache == dc):
        ns["cache"] = bool(cache)
    if not (inherit and ev == de):
        ns["empty_valid"] = bool(ev)
    if kind == "s":
        ns["default_value"] = dflt
    kwds = {"unifier": _RecUnifier} if kind == "u" else {}
    cls = types.new_class(f"K_{kind}{lock}{cache}{ev}", (base,), kwds, lambda n: n.update(ns))
    cls = dataclass(frozen=True)(cls)
    _cls_cache[ck] = cls
    return cls


def _parse_cfg(cfg: str):
    t = dict(x.split("=") for x in cfg.split()[1:])
    keys = []
    for i in range(int(t["n"])):
        kd, l, c, e, d = t[f"k{i}"].split(":")
        keys.append((kd, int(l), int(c), int(e), None if d == "-" else int(d)))
    return keys, t.get("inh", "0") == "1"


def _show(kind: str, ret) -> str:
    if ret is None:
        return "ret none"
    if kind == "s":
        return f"ret nat:{ret}"
    if kind == "l":
        return "ret list:" + (",".join(map(str, ret)) or "-")
    meth, unifiers = ret
    if len(unifiers) == 0:
        return f"ret meth:{meth}"
    (u,) = unifiers
    if meth is not u.method:
        return "ret unif:method-not-from-unifier"
    return "ret unif:" + (",".join(map(str, u.data)) or "-")


def impl(case: Case) -> list[str]:
    from transactron.utils.dependencies import DependencyManager

    keys, inherit = _parse_cfg(case.cfg)
    classes = [_key_class(*k, inherit) for k in keys]
    dm = DependencyManager()
    out = ["ok"]
    for line in case.ops:
        t = line.split()
        kv = dict(x.split("=") for x in t[1:])
        k = int(kv["k"])
        # a fresh (equal) key object per operation: keys are compared by value; two instances of the
        # same class with a different field are different keys
        key = classes[k](k)
        try:
            if t[0] == "add":
                dm.add_dependency(key, int(kv["v"]))
                out.append("added")
            elif t[0] == "get":
                r = dm.get_dependency(key)
                out.append(_show(keys[k][0], list(r) if keys[k][0] == "l" else r))
            elif t[0] == "opt":
                r = dm.get_optional_dependency(key)
                out.append(_show(keys[k][0], list(r) if keys[k][0] == "l" and r is not None else r))
            else:
                out.append("bad-op")
        except (KeyError, RuntimeError) as e:
            out.append(f"raise {type(e).__name__}")
        except Exception as e:  # noqa: BLE001 - any other exception is an observation too
            out.append(f"raise other:{type(e).__name__}")
    return out


# ----------------------------------------------------------------------------- monitor
def _expected_read(opname: str, kind: str, ev: int, dflt, vals: list[int]) -> tuple[str, str]:
    """(expected answer, the sentence of the property it comes from)"""
    none_answer = "raise KeyError" if opname == "get" else "ret none"
    if not ev and not vals:
        return none_answer, "a key with no dependency and empty_valid=False is an error (None for get_optional)"
    if kind == "l":
        return "ret list:" + (",".join(map(str, vals)) or "-"), "a list key returns all dependencies in insertion order"
    if kind == "s":
        if len(vals) == 0:
            return (none_answer if dflt is None else f"ret nat:{dflt}"), "a simple key returns its default when allowed"
        if len(vals) == 1:
            return f"ret nat:{vals[0]}", "a simple key returns its single dependency"
        return "raise RuntimeError", "a simple key with several dependencies is an error"
    if len(vals) == 1:
        return f"ret meth:{vals[0]}", "a unifier key with one method returns that method"
    return "ret unif:" + (",".join(map(str, vals)) or "-"), "a unifier key unifies all methods added so far (never a stale result)"


def monitor(case: Case, out: list[str]):
    """The property sentences, evaluated on the real manager's answers only."""
    keys, _ = _parse_cfg(case.cfg)
    acc: dict[int, list[int]] = {i: [] for i in range(len(keys))}
    read = {i: False for i in range(len(keys))}
    for n, (line, o) in enumerate(zip(case.ops, out[1:])):
        t = line.split()
        kv = dict(x.split("=") for x in t[1:])
        k = int(kv["k"])
        kind, lock, _cache, ev, dflt = keys[k]
        if t[0] == "add":
            if lock and read[k]:
                if o != "raise KeyError":
                    return f"op {n} ({line}): adding to a lock-on-get key after it was read answered '{o}', expected KeyError"
            elif o != "added":
                return f"op {n} ({line}): add to a key that is not locked answered '{o}'"
            if o == "added":
                acc[k].append(int(kv["v"]))
        else:
            exp, why = _expected_read(t[0], kind, ev, dflt, acc[k])
            if o != exp:
                return f"op {n} ({line}): answered '{o}', expected '{exp}' [{why}; dependencies added so far {acc[k]}]"
            read[k] = True
    return None


# ----------------------------------------------------------------------------- generators
def _cfg_line(keys, inherit: bool) -> str:
    ks = " ".join(f"k{i}={kd}:{l}:{c}:{e}:{'-' if d is None else d}" for i, (kd, l, c, e, d) in enumerate(keys))
    return f"cfg n={len(keys)} inh={int(inherit)} {ks}"


def _mk(keys, inherit, ops, tag) -> Case:
    lines = []
    for o in ops:
        lines.append(f"add k={o[1]} v={o[2]}" if o[0] == "add" else f"{o[0]} k={o[1]}")
    desc = {"component": "DependencyManager", "kinds": "".join(k[0] for k in keys)}
    return Case(_cfg_line(keys, inherit), lines, desc, tag)


def _rand_key(rng, documented: bool):
    kind = rng.choice("slu")
    if documented:
        l, c, e = DOC_DEFAULTS[kind]
        if rng.random() < 0.3:
            l = 0  # the common override in the code base (lock_on_get = False)
        if kind == "s" and rng.random() < 0.3:
            e = 1
    else:
        l, c, e = rng.randint(0, 1), rng.randint(0, 1), rng.randint(0, 1)
    d = rng.choice([None, rng.randint(0, 99)]) if kind == "s" else None
    return (kind, l, c, e, d)


def _rand_ops(rng, nkeys: int, n: int, p_add: float):
    ops = []
    for _ in range(n):
        k = rng.randrange(nkeys)
        if rng.random() < p_add:
            ops.append(("add", k, rng.randint(0, 99)))
        else:
            ops.append((rng.choice(["get", "get", "opt"]), k))
    return ops


def all_key_cfgs():
    for kind in "slu":
        for l, c, e in itertools.product((0, 1), repeat=3):
            for d in ([None, 7] if kind == "s" else [None]):
                yield (kind, l, c, e, d)


def gen_cases(ctx: Check) -> list[Case]:
    rng = ctx.rng("gen")
    cases: list[Case] = []
    # directed: the patterns named in the property, on the documented key classes (flags inherited)
    S, L, U = ("s", 1, 1, 0, None), ("l", 1, 1, 1, None), ("u", 1, 0, 0, None)
    Lnl, Snl = ("l", 0, 1, 1, None), ("s", 0, 1, 1, 42)
    cases.append(_mk([S, L, U], True, [("get", 0), ("add", 0, 1), ("add", 1, 5), ("add", 1, 3), ("add", 1, 5), ("get", 1),
                                       ("add", 1, 9), ("get", 1), ("add", 2, 4), ("get", 2), ("add", 2, 6)], "directed"))
    cases.append(_mk([Lnl, Snl], True, [("get", 0), ("add", 0, 1), ("get", 0), ("add", 0, 2), ("opt", 0), ("get", 0),
                                        ("get", 1), ("add", 1, 8), ("get", 1), ("add", 1, 9), ("get", 1), ("opt", 1)], "directed"))
    cases.append(_mk([("u", 0, 0, 0, None)], True, [("opt", 0), ("add", 0, 1), ("get", 0), ("add", 0, 2), ("get", 0),
                                                      ("get", 0), ("add", 0, 3), ("opt", 0)], "directed"))
    cases.append(_mk([("u", 0, 1, 1, None), ("l", 1, 0, 0, None)], False, [("get", 0), ("add", 0, 1), ("get", 0), ("add", 0, 2),
                                                                             ("get", 0), ("get", 1), ("add", 1, 1), ("opt", 1)], "directed"))
    # same class, different field values are different keys; equal instances are the same key
    cases.append(_mk([L, L, S, S], True, [("add", 0, 1), ("add", 1, 2), ("get", 0), ("add", 1, 3), ("get", 1), ("add", 2, 7),
                                          ("get", 3), ("get", 2), ("add", 3, 1)], "directed"))
    # all histories up to a bound over one key of every configuration (values 0,1,2… in order of addition)
    maxlen = ctx.pick(4, 6)
    for kc in all_key_cfgs():
        for n in range(1, maxlen + 1):
            for seq in itertools.product(("add", "get", "opt"), repeat=n):
                v = itertools.count(1)
                cases.append(_mk([kc], False, [("add", 0, next(v)) if s == "add" else (s, 0) for s in seq], "exhaustive"))
    # random histories over several keys
    for i in range(ctx.pick(1500, 10000)):
        nk = rng.randint(1, 4)
        documented = rng.random() < 0.4
        keys = [_rand_key(rng, documented) for _ in range(nk)]
        n = rng.randint(4, 12 * nk)
        cases.append(_mk(keys, documented, _rand_ops(rng, nk, n, rng.choice([0.3, 0.5, 0.7])), "random"))
    return cases


def more_cases(case: Case, rng):
    keys, inherit = _parse_cfg(case.cfg)
    for _ in range(300):
        yield _mk(keys, inherit, _rand_ops(rng, len(keys), rng.randint(3, 30), rng.choice([0.3, 0.5, 0.7])), "search")


def nontrivial(case: Case, out: list[str]) -> bool:
    """a refused add, a RuntimeError, or a read → accepted add → read on the same key (cache invalidation)"""
    if "raise RuntimeError" in out:
        return True
    stage: dict[str, int] = {}
    for line, o in zip(case.ops, out[1:]):
        t = line.split()
        k = t[1]
        if t[0] == "add":
            if o == "raise KeyError":
                return True
            if stage.get(k) == 1:
                stage[k] = 2
        else:
            if stage.get(k) == 2:
                return True
            stage[k] = 1
    return False


def run(ctx: Check):
    ctx.rule = ("cases = (key classes with kind and lock_on_get/cache/empty_valid/default, history of add/get/get_optional); "
                "non-trivial = history with a refused add, a RuntimeError, or read -> accepted add -> read on one key "
                "(the cache had to be invalidated)")
    ctx.proof_stage()
    cases = gen_cases(ctx)
    ctx.exhaustive = False
    ctx.note(f"all histories of length <= {ctx.pick(4, 6)} over one key for each of the 32 key configurations are included")
    lockstep(ctx, "depmgr", "C42", cases, impl, monitor, more_cases, nontrivial, procs=1)


def replay(ctx: Check, body: dict):
    return replay_case(body, impl, monitor)
