"""Random module-context trees for C33/C34 (helper of harness/txv/props/c33.py and c34.py).

A generated design is a tree of Transactron/Amaranth contexts with numbered leaves (emission
sites / log statements):

    node := {"k": "leaf", "id": i}
          | {"k": "if", "conds": [c…], "else": bool, "branches": [[node…]…]}   m.If / m.Elif… / m.Else
          | {"k": "tr", "req": j, "body": [node…]}                              Transaction().body(m, ready=r_j)
          | {"k": "call", "m": j}                                               call of method j (inside a tr body)
    tree := {"nconds": K, "nreqs": T, "top": [node…], "methods": [[node…]…]}

Leaves are numbered in elaboration order (method bodies first, in index order, then the top
block), which is the registration order of sites / log records.  `leaf_conds` gives, for input
values of the condition and request signals, the list of enclosing conditions of every leaf:
`m.If(c)` → c, the b-th alternative of a chain → not c_0 … not c_{b-1}, c_b, a transaction body →
its request (transactions here never conflict, so they run iff requested), a method body → the
conditions of its single call site.
"""

from __future__ import annotations

from amaranth import *  # noqa: F403

from transactron import Method, TModule, Transaction, def_method


def gen_tree(rng, nleaves: int, maxdepth: int = 3) -> dict:
    K = rng.randint(1, 4)
    st = {"T": 0, "methods": []}

    def split(n, parts):
        cuts = sorted(rng.randint(0, n) for _ in range(parts - 1))
        return [b - a for a, b in zip([0, *cuts], [*cuts, n])]

    def block(n, depth, in_tr, in_m):
        nodes = []
        while n > 0:
            take = rng.randint(1, n)
            r = rng.random()
            if depth >= maxdepth or r < 0.3:
                nodes += [{"k": "leaf"} for _ in range(take)]
            elif r < 0.7:
                nb = rng.randint(1, 3)
                has_else = nb >= 2 and rng.random() < 0.5
                nc = nb - 1 if has_else else nb
                nodes.append(
                    {
                        "k": "if",
                        "conds": [rng.randrange(K) for _ in range(nc)],
                        "else": has_else,
                        "branches": [block(p, depth + 1, in_tr, in_m) for p in split(take, nb)],
                    }
                )
            elif depth == 0 and not in_tr and not in_m:
                j = st["T"]
                st["T"] += 1
                nodes.append({"k": "tr", "req": j, "body": block(take, depth + 1, True, False)})
            elif in_tr and rng.random() < 0.6:
                j = len(st["methods"])
                st["methods"].append(None)
                st["methods"][j] = block(take, depth + 1, False, True)
                nodes.append({"k": "call", "m": j})
            else:
                nodes += [{"k": "leaf"} for _ in range(take)]
            n -= take
        return nodes

    top = block(nleaves, 0, False, False)
    tree = {"nconds": K, "nreqs": st["T"], "top": top, "methods": st["methods"]}
    number(tree)
    return tree


def _walk_leaves(nodes, fn):
    for n in nodes:
        if n["k"] == "leaf":
            fn(n)
        elif n["k"] == "if":
            for b in n["branches"]:
                _walk_leaves(b, fn)
        elif n["k"] == "tr":
            _walk_leaves(n["body"], fn)


def number(tree: dict) -> int:
    cnt = [0]

    def fn(n):
        n["id"] = cnt[0]
        cnt[0] += 1

    for body in tree["methods"]:
        _walk_leaves(body, fn)
    _walk_leaves(tree["top"], fn)
    return cnt[0]


def leaf_conds(tree: dict, cvals: list[int], rvals: list[int]) -> dict[int, list[bool]]:
    out: dict[int, list[bool]] = {}
    calls: dict[int, list[bool]] = {}

    def walk(nodes, prefix):
        for n in nodes:
            k = n["k"]
            if k == "leaf":
                out[n["id"]] = list(prefix)
            elif k == "if":
                neg: list[bool] = []
                for b, blk in enumerate(n["branches"]):
                    if b < len(n["conds"]):
                        c = bool(cvals[n["conds"][b]])
                        walk(blk, prefix + neg + [c])
                        neg = neg + [not c]
                    else:
                        walk(blk, prefix + neg)
            elif k == "tr":
                walk(n["body"], prefix + [bool(rvals[n["req"]])])
            elif k == "call":
                calls[n["m"]] = list(prefix)

    walk(tree["top"], [])
    for j, body in enumerate(tree["methods"]):
        walk(body, calls[j])
    return out


def depth_of(tree: dict) -> dict[int, int]:
    """number of enclosing conditions per leaf (for statistics)"""
    return {i: len(c) for i, c in leaf_conds(tree, [1] * tree["nconds"], [1] * tree["nreqs"]).items()}


class TreeDesign(Elaboratable):  # noqa: F405
    """Elaborates `tree`; `leaf_fn(m, leaf_id, design)` is called at every leaf, `pre_fn(m, design)` first."""

    def __init__(self, tree: dict, leaf_fn, pre_fn=None):
        self.tree = tree
        self.leaf_fn = leaf_fn
        self.pre_fn = pre_fn
        self.c = [Signal(name=f"c{i}") for i in range(tree["nconds"])]  # noqa: F405
        self.r = [Signal(name=f"r{i}") for i in range(tree["nreqs"])]  # noqa: F405

    def elaborate(self, platform):
        m = TModule()
        if self.pre_fn is not None:
            self.pre_fn(m, self)
        meths = [Method(name=f"meth{j}") for j in range(len(self.tree["methods"]))]
        def define(j, body):
            @def_method(m, meths[j])
            def _():
                self._walk(m, body, meths)

        for j, body in enumerate(self.tree["methods"]):
            define(j, body)

        self._walk(m, self.tree["top"], meths)
        return m

    def _walk(self, m, nodes, meths):
        for n in nodes:
            k = n["k"]
            if k == "leaf":
                self.leaf_fn(m, n["id"], self)
            elif k == "if":
                for b, blk in enumerate(n["branches"]):
                    if b == 0:
                        cm = m.If(self.c[n["conds"][0]])
                    elif b < len(n["conds"]):
                        cm = m.Elif(self.c[n["conds"][b]])
                    else:
                        cm = m.Else()
                    with cm:
                        self._walk(m, blk, meths)
            elif k == "tr":
                with Transaction(name=f"tr{n['req']}").body(m, ready=self.r[n["req"]]):
                    self._walk(m, n["body"], meths)
            elif k == "call":
                meths[n["m"]](m)


class Top(Elaboratable):  # noqa: F405
    def __init__(self, inner):
        self.inner = inner

    def elaborate(self, platform):
        m = Module()  # noqa: F405
        dummy = Signal()  # noqa: F405
        m.d.sync += dummy.eq(1)  # a clock domain must exist even for comb-only designs
        m.submodules.inner = self.inner
        return m


class Watchdog:
    """`with Watchdog(20):` raises TimeoutError inside the block once the process has burnt that many seconds of
    CPU time in it (main thread only): a run-away loop in the implementation becomes an observation instead of
    hanging the check.  CPU time, not wall time, so that a loaded machine cannot trip it; the timer repeats
    every second in case the exception lands where Python swallows it (`__del__`)."""

    fired = 0  # after a few timeouts the budget shrinks so that shrinking a hanging case stays fast

    def __init__(self, seconds: float):
        self.seconds = max(2.0, seconds - 6 * Watchdog.fired)

    def _fire(self, signum, frame):
        Watchdog.fired += 1
        raise TimeoutError("implementation did not finish")

    def __enter__(self):
        import signal
        import threading

        self.active = threading.current_thread() is threading.main_thread()
        if self.active:
            self.old = signal.signal(signal.SIGVTALRM, self._fire)
            signal.setitimer(signal.ITIMER_VIRTUAL, self.seconds, 1.0)
        return self

    def __exit__(self, *exc):
        import signal

        if self.active:
            signal.setitimer(signal.ITIMER_VIRTUAL, 0)
            signal.signal(signal.SIGVTALRM, self.old)
        return False


def interp(width: int, signed: bool, bits: int) -> int:
    """value pysim reports for a `width`-bit signal holding the bit pattern `bits`"""
    b = bits % (1 << width)
    if signed and width > 0 and b >= (1 << (width - 1)):
        return b - (1 << width)
    return b
