"""Two-caller scenarios for C21/C22/C24: every method of the real component is called from two independent
transactions (two AdapterTrans on the same real Method), so that a method that lost its exclusivity (declared
nonexclusive, lost a conflict) shows up as two executions in one cycle.

The effective single-caller history (what the property and the Lean model talk about) is generated first; each
attempted call of it is then given to caller a, to caller b, or to both - in the last case the caller with the
static priority of the real scheduler (probed on the real circuit) carries the effective arguments and the other
one junk arguments that must never take effect."""

from __future__ import annotations

from amaranth import Elaboratable
from transactron import TModule


def wrap(inner, names):
    """Elaboratable owning `inner`; for every method (list) `name` it exposes `name_a` and `name_b`, lists of the
    SAME real Method objects; SimpleTestCircuit puts one AdapterTrans on every element."""

    class TwoCallers(Elaboratable):
        def __init__(self):
            self.inner = inner
            for name in names:
                v = getattr(inner, name)
                lst = [v[i] for i in range(len(v))] if hasattr(v, "__len__") else [v]
                setattr(self, name + "_a", list(lst))
                setattr(self, name + "_b", list(lst))

        def elaborate(self, platform):
            m = TModule()
            m.submodules.inner = self.inner
            return m

    return TwoCallers()


def probe(sim, probe_ops, instances):
    """static priority per method instance: run `probe_ops` (both callers attempting everything); the caller that
    executes in the first cycle where exactly one does has priority (0 = a).  Default 0."""
    tr = sim.run(probe_ops)
    prio = {}
    for name, k in instances:
        prio[(name, k)] = 0
        for res in tr:
            ea, eb = res[(name + "_a", k)] is not None, res[(name + "_b", k)] is not None
            if ea != eb:
                prio[(name, k)] = 0 if ea else 1
                break
    return prio


def split(rng, val, junk, winner: int, p_both: float = 0.5):
    """(a_value, b_value) for one attempted effective call `val` (None = not attempted)"""
    if val is None:
        return None, None
    u = rng.random()
    if u < p_both:
        return (val, junk) if winner == 0 else (junk, val)
    if u < p_both + (1 - p_both) / 2:
        return val, None
    return None, val


def merge(res, name, k, a_att, b_att, winner: int):
    """(result of the executed call or None, anomaly text or None) for one method instance in one cycle"""
    ra, rb = res[(name + "_a", k)], res[(name + "_b", k)]
    if ra is not None and rb is not None:
        return ra, f"both-callers-of-{name}[{k}]-executed"
    if a_att and b_att and (ra is not None or rb is not None):
        if (ra is not None) != (winner == 0):
            return (ra if ra is not None else rb), f"caller-without-priority-of-{name}[{k}]-executed"
    return (ra if ra is not None else rb), None
