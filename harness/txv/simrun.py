"""Cycle-level driver for real Transactron components in Amaranth's pysim.

`CompSim(make_dut)` elaborates the *real* component (whatever `/repo`'s working tree
says now) inside `SimpleTestCircuit`, with the real `TransactionManager`, and lets a
caller drive every method adapter directly, cycle by cycle:

    sim = CompSim(lambda: Semaphore(3))
    trace = sim.run([{"acquire": 0, "release": None}, ...], extra=lambda dut: [dut.count])

Per cycle the op dict maps a method path to `None` (no call attempt, `en = 0`) or to the
argument (an int for the flattened `data_in`, or a dict of fields); paths are attribute
names of the component, `("name", i)` / `"name[i]"` for lists of methods.  The result per
cycle maps every path to `None` (did not execute) or the flattened `data_out` as int, and
`"_extra"` to the sampled extra signals.  Values are those sampled at the clock edge
(pre-edge), i.e. exactly what `TestbenchIO.call` observes.

For `Adapter`s (methods the component *calls*, annotated `Required`), `en` is the mock
method's readiness, the op value what it returns, and the result what it was called with.
"""

from __future__ import annotations

import warnings
from typing import Any, Callable, Optional, Sequence

from amaranth import *  # noqa: F403
from amaranth.sim import Simulator
from amaranth.lib.data import View

from transactron.utils.dependencies import DependencyContext, DependencyManager
from transactron.core.context import TransactronContextElaboratable
from transactron.testing.test_circuit import SimpleTestCircuit
from transactron.testing.testbenchio import TestbenchIO

warnings.filterwarnings("ignore")

Path = Any  # str | tuple


def _norm(path) -> tuple:
    if isinstance(path, tuple):
        return path
    if isinstance(path, str) and path.endswith("]") and "[" in path:
        name, idx = path[:-1].split("[")
        return (name, int(idx))
    return (path,)


def pathstr(p: tuple) -> str:
    return p[0] + "".join(f"[{i}]" for i in p[1:])


class _Top(Elaboratable):
    def __init__(self, inner):
        self.inner = inner

    def elaborate(self, platform):
        m = Module()
        dummy = Signal()
        m.d.sync += dummy.eq(1)  # so that a clock domain exists even for comb-only designs
        m.submodules.inner = self.inner
        return m


class CompSim:
    def __init__(self, make_dut: Callable[[], Any], exclude: Sequence[str] = (), wrap: Optional[Callable] = None):
        self.dm = DependencyManager()
        with DependencyContext(self.dm):
            self.dut = make_dut()
            self.circ = SimpleTestCircuit(self.dut, exclude=exclude)
            inner = self.circ if wrap is None else wrap(self.circ, self.dut)
            self.tctx = TransactronContextElaboratable(inner, dependency_manager=self.dm)
            self.top = _Top(self.tctx)
            self.sim = Simulator(self.top)
        self.sim.add_clock(1e-6)
        self.tbs: dict[tuple, TestbenchIO] = {}
        self._collect()
        self._first = True

    def _collect(self):
        def rec(prefix: tuple, obj):
            if isinstance(obj, TestbenchIO):
                self.tbs[prefix] = obj
            elif isinstance(obj, list):
                for i, e in enumerate(obj):
                    rec(prefix + (i,), e)
            elif isinstance(obj, dict):
                for k, e in obj.items():
                    rec(prefix + (k,), e)

        for name, io in self.circ._io.items():
            rec((name,), io)

    @property
    def manager(self):
        return self.tctx.transaction_manager if hasattr(self.tctx, "transaction_manager") else None

    def paths(self) -> list[tuple]:
        return list(self.tbs)

    def width_in(self, path) -> int:
        return len(self.tbs[_norm(path)].adapter.data_in.as_value())

    def width_out(self, path) -> int:
        return len(self.tbs[_norm(path)].adapter.data_out.as_value())

    def run(
        self,
        ops: Sequence[dict],
        extra: Optional[Callable[[Any], Sequence[Any]]] = None,
        pre_cycle: Optional[Callable[[Any, int], None]] = None,
        setup: Optional[Callable[[Any], None]] = None,
    ) -> list[dict]:
        """Run `ops` (one dict per cycle) from reset; returns one dict per cycle.

        `extra(dut)` lists additional signals/values to sample at each edge;
        `setup(ctx)` may preset registers right after reset (exhaustive single-step mode);
        `pre_cycle(ctx, k)` may drive extra plain input signals before cycle k.
        """
        paths = list(self.tbs)
        extra_vals = list(extra(self.dut)) if extra else []
        extra_vals = [v.as_value() if isinstance(v, View) else v for v in extra_vals]
        results: list[dict] = []
        norm_ops = [{_norm(k): v for k, v in op.items()} for op in ops]
        self._job = (paths, extra_vals, results, norm_ops, pre_cycle, setup)
        if self._first:
            self.sim.add_testbench(self._tb)
            self._first = False
        else:
            self.sim.reset()
        self.sim.run()
        return results

    async def _tb(self, ctx):
        paths, extra_vals, results, norm_ops, pre_cycle, setup = self._job
        if setup is not None:
            setup(ctx)
        for k, op in enumerate(norm_ops):
            for p in paths:
                ad = self.tbs[p].adapter
                v = op.get(p)
                if v is None:
                    ctx.set(ad.en, 0)
                else:
                    ctx.set(ad.en, 1)
                    if isinstance(v, dict):
                        ctx.set(ad.data_in, v)
                    elif len(ad.data_in.as_value()):
                        ctx.set(ad.data_in.as_value(), v)
            if pre_cycle is not None:
                pre_cycle(ctx, k)
            sampled = await ctx.tick().sample(
                *[self.tbs[p].adapter.done for p in paths],
                *[self.tbs[p].adapter.data_out.as_value() for p in paths],
                *extra_vals,
            )
            # tick().sample returns (clk_hit, rst_active, *values)
            vals = list(sampled[2:])
            n = len(paths)
            res: dict = {}
            for i, p in enumerate(paths):
                res[p] = int(vals[n + i]) if int(vals[i]) else None
            res["_extra"] = [int(x) for x in vals[2 * n :]]
            results.append(res)


def fmt_opt(v) -> str:
    return "-" if v is None else str(int(v))
