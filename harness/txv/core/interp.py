"""Interpreter: abstract design (JSON-able tree, see designgen.py) -> real Transactron circuit.

Everything here uses the public Transactron/Amaranth API exactly the way user code does:
`TModule`, `m.If/Elif/Else/Switch/Case/Default/FSM/State`, `Transaction().body`,
`Method().body` / `def_method`, method calls with/without `enable_call`, `Method.provide`,
`Methods.provide`, `add_conflict`, `schedule_before`.

Every `ready=`, condition, switch test, `enable_call`, call argument and per-method local
input is a fresh top-level input `Signal` (`CoreTop.inputs[id]`); FSM state registers are
exposed as inputs too (the testbench overwrites them; the design is comb-only otherwise).
Every call site gets
  * `w`   set in `m.d.comb`    next to the call  (1 iff caller runs and surrounding conditions hold)
  * `wa`  set in `m.d.av_comb` next to the call  (1 iff surrounding conditions hold, run ignored)
  * `res` the value the caller received as the call result
and the interpreter remembers which `(ctrl_path, arg_rec, enable_sig)` tuple of
`Body.method_calls` the call produced, so that the extractor can name sites.
"""

from __future__ import annotations

from dataclasses import dataclass
from typing import Any, Optional

from amaranth import *  # noqa: F403

from transactron import Method, Methods, Transaction, TModule, def_method, Priority
from transactron.core.body import Body


@dataclass
class SiteRec:
    site: int
    caller: Body
    method_obj: Any  # the Method object that was called (possibly an alias)
    call_tuple: tuple  # the (ctrl_path, arg_rec, enable_sig) appended to caller.method_calls[method_obj]
    w: Signal
    wa: Signal
    res: Optional[Signal]
    stmt: dict


def _layout_in(md: dict):
    """input layout of a method: one field `d`, or (multi-field methods) fields f0, f1, ... of the given
    widths in declaration order; the flat argument value is the concatenation, f0 in the low bits"""
    if md.get("fields"):
        return [(f"f{k}", w) for k, w in enumerate(md["fields"])]
    return _layout(md["iw"])


def _layout(w: int):
    return [("d", w)] if w > 0 else []


def _combiner(kind: str):
    """custom combiners (the Lean model has the same table: Combiner.apply)"""

    def impl(m, args, runs):
        vals = [Mux(runs[i], args[i].d, 0) for i in range(len(args))]
        w = len(args[0].d) if args else 1
        if kind == "or":
            acc = C(0, w)
            for x in vals:
                acc = acc | x
        elif kind == "sum":
            acc = C(0, w)
            for x in vals:
                acc = (acc + x)[:w]
        elif kind == "xor":
            acc = C(0, w)
            for x in vals:
                acc = acc ^ x
        elif kind == "count":
            acc = C(0, w)
            for i in range(len(args)):
                acc = (acc + runs[i])[:w]
        else:
            raise ValueError(kind)
        return {"d": acc}

    return impl


def _pred(kind: str, c: int = 0):
    if kind == "eq":
        return lambda d: d == c
    if kind == "ne":
        return lambda d: d != c
    if kind == "lt":
        return lambda d: d < c
    if kind == "bit":
        return lambda d: d[c]
    # validators whose RESULT is wider than one bit ("non-zero means valid", Amaranth truthiness)
    if kind == "mbit":
        return lambda d: d & (1 << c)
    if kind == "mnz":
        return lambda d: d & ((1 << len(d)) - 1)
    if kind == "mlow2":
        return lambda d: d[0:2]
    if kind == "minc":
        return lambda d: d + 1
    raise ValueError(kind)


def _make_method(top, md):
    top.methods[md["ref"]] = Method(name=md["ref"], i=_layout_in(md), o=_layout(md["ow"]))


def _make_group(top, g):
    grp = Methods(g["count"], name=g["name"], i=_layout(g["iw"]), o=_layout(g["ow"]))
    top.groups[g["name"]] = grp
    for md in top.design["methods"]:
        if md.get("group") and md["group"][0] == g["name"]:
            top.methods[md["ref"]] = grp[md["group"][1]]


class MyTModule(TModule):
    pass


class GenModule(Elaboratable):
    """One abstract module = one `TModule`.  Methods owned by the module are created in
    `__init__`, so that `Method.owner` is this object (transactron_helpers.get_caller_class_name)."""

    def __init__(self, top: "CoreTop", idx: int, spec: dict):
        self.top = top
        self.idx = idx
        self.spec = spec
        self.name = spec.get("name", f"mod{idx}")
        # NOTE: `_make_group`/`_make_method` are plain functions (no `self` in their frame), so the
        # first frame with an Elaboratable `self` is this `__init__`: owner = this module.
        for g in top.design.get("groups", []):
            if g.get("owner") == idx:
                _make_group(top, g)
        for md in top.design["methods"]:
            if md.get("owner") == idx and md.get("group") is None:
                _make_method(top, md)

    # -- statements ---------------------------------------------------------------
    def build(self) -> TModule:
        # some modules are built from a trivial subclass of TModule (user code does that too)
        m = self.top.tmodule_subclass() if self.spec.get("subclass") else TModule()
        self.top.tmodules.append(m)
        self.block(m, self.spec["block"])
        return m

    def elaborate(self, platform):
        return self.build()

    def block(self, m: TModule, stmts: list):
        for s in stmts:
            getattr(self, "s_" + s["k"])(m, s)

    def s_if(self, m, s):
        for i, alt in enumerate(s["alts"]):
            if i == 0:
                ctx = m.If(self.top.inp(alt["cond"]))
            elif alt["cond"] is None:
                ctx = m.Else()
            else:
                ctx = m.Elif(self.top.inp(alt["cond"]))
            with ctx:
                self.block(m, alt["block"])

    def s_switch(self, m, s):
        with m.Switch(self.top.inp(s["test"])):
            for case in s["cases"]:
                ctx = m.Default() if case["pats"] is None else m.Case(*case["pats"])
                with ctx:
                    self.block(m, case["block"])

    def s_fsm(self, m, s):
        with m.FSM(name=f"fsm{s['uid']}") as fsm:
            for st in s["states"]:
                with m.State(st["name"]):
                    self.block(m, st["block"])
        self.top.inputs[s["state"]] = fsm.state
        self.top.fsm_inputs.add(s["state"])

    def s_trans(self, m, s):
        t = Transaction(name=s["name"])
        self.top.transactions[s["name"]] = t
        kw = {}
        if s.get("ready") is not None:
            kw["ready"] = self.top.inp(s["ready"])
        with t.body(m, **kw):
            self.top.bodies[s["name"]] = Body.get()
            self.block(m, s["block"])

    def s_method(self, m, s):
        meth = self.top.methods[s["ref"]]
        md = self.top.mdesc[s["ref"]]
        kw: dict = {}
        if s.get("nonexclusive"):
            kw["nonexclusive"] = True
        if s.get("combiner"):
            kw["combiner"] = _combiner(s["combiner"])
        if s.get("single_caller"):
            kw["single_caller"] = True
        if s.get("validate"):
            vk, vc = s["validate"]
            if vk in ("sig", "nsig"):  # predicate of a zero-argument method: a per-caller guard on an input signal
                gsig = self.top.inp(vc)
                kw["validate_arguments"] = (lambda: gsig) if vk == "sig" else (lambda: ~gsig)
            else:
                kw["validate_arguments"] = _pred(vk, vc)
        ready = self.top.inp(s["ready"]) if s.get("ready") is not None else C(1)
        ow = md["ow"]
        loc = self.top.inp(s["loc"]) if s.get("loc") is not None else C(0, max(ow, 1))

        def outval(arg):
            kind = s["out"][0]
            d = arg.as_value() if md["iw"] > 0 else C(0, 1)
            if kind == "const":
                return C(s["out"][1], max(ow, 1))
            if kind == "loc":
                return loc
            if kind == "xorLoc":
                return d ^ loc
            if kind == "addLoc":
                return d + loc
            raise ValueError(kind)

        if s.get("sugar"):

            @def_method(m, meth, ready, **kw)
            def _(arg):
                self.top.bodies[s["ref"]] = Body.get()
                self.block(m, s["block"])
                if ow > 0:
                    return {"d": outval(arg)[:ow]}
                return None

        else:
            out = Signal(meth.layout_out)
            with meth.body(m, ready=ready, out=out, **kw) as arg:
                self.top.bodies[s["ref"]] = Body.get()
                if ow > 0:
                    m.d.top_comb += out.d.eq(outval(arg)[:ow])
                self.block(m, s["block"])

    def s_call(self, m, s):
        top = self.top
        ref = s["ref"]
        md = top.mdesc[ref]
        obj = top.callable(ref, s.get("via_group", False))
        meth = top.methods[ref]
        kw = {}
        en = s.get("enable")
        if isinstance(en, dict):  # a constant enable, written as C(v) / Python int / Python bool
            kw["enable_call"] = {"C": C(en["const"], 1), "int": int(en["const"]), "bool": bool(en["const"])}[en["form"]]
        elif en is not None:
            kw["enable_call"] = top.inp(en)
        caller = Body.get()
        n0 = len(caller.method_calls[meth]) if meth in caller.method_calls else 0
        if md["iw"] > 0:
            argv = top.inp(s["arg"]) if isinstance(s["arg"], str) else C(int(s["arg"]), md["iw"])
            if md.get("fields"):
                ret = self._call_fields(m, obj, md, argv, s.get("argform", "dict"), kw, s["site"])
            elif s.get("kw"):
                ret = obj(m, d=argv, **kw)
            else:
                ret = obj(m, {"d": argv}, **kw)
        else:
            ret = obj(m, **kw)
        # the (ctrl_path, arg_rec, enable_sig) tuple this call registered; None if the real code did not
        # register the call (then extraction reports a disagreement with the abstract design)
        lst = caller.method_calls[meth] if meth in caller.method_calls else []
        tup = lst[-1] if len(lst) > n0 else None
        sid = s["site"]
        w = Signal(name=f"w{sid}")
        wa = Signal(name=f"wa{sid}")
        m.d.comb += w.eq(1)
        m.d.av_comb += wa.eq(1)
        res = None
        if md["ow"] > 0:
            res = Signal(md["ow"], name=f"res{sid}")
            m.d.top_comb += res.eq(ret.d)
        top.sites[sid] = SiteRec(sid, caller, meth, tup, w, wa, res, s)

    def _call_fields(self, m, obj, md, argv, form, kw, sid):
        """call of a method with a multi-field input layout; `argv` is the flat argument (f0 in the low bits).
        forms: dict / keyword arguments / a positional View of the callee's own layout / a positional View of a
        layout with the same field names declared in the opposite order (fields are matched by name)."""
        from amaranth.lib import data

        parts, lo = {}, 0
        for k, w in enumerate(md["fields"]):
            parts[f"f{k}"] = argv[lo : lo + w]
            lo += w
        if form == "kw":
            return obj(m, **parts, **kw)
        if form in ("view", "view_same"):
            names = list(parts)
            order = names[::-1] if form == "view" else names
            widths = dict(zip(names, md["fields"]))
            v = Signal(data.StructLayout({n: widths[n] for n in order}), name=f"argview{sid}")
            for n in names:
                m.d.top_comb += getattr(v, n).eq(parts[n])
            return obj(m, v, **kw)
        return obj(m, parts, **kw)

    def s_provide(self, m, s):
        self.top.methods[s["ref"]].provide(self.top.methods[s["target"]])

    def s_provide_group(self, m, s):
        self.top.groups[s["group"]].provide([self.top.methods[r] for r in s["targets"]])


class CoreTop(Elaboratable):
    def __init__(self, design: dict):
        self.design = design
        self.inputs: dict[str, Signal] = {}
        self.fsm_inputs: set[str] = set()
        self.mdesc = {md["ref"]: md for md in design["methods"]}
        self.methods: dict[str, Method] = {}
        self.groups: dict[str, Methods] = {}
        self.transactions: dict[str, Transaction] = {}
        self.bodies: dict[str, Body] = {}  # transaction name / defined method ref -> Body
        self.sites: dict[int, SiteRec] = {}
        self.tmodules: list = []  # every TModule object created for this design
        # a design-local trivial subclass (as user code would write `class MyTModule(TModule): pass`)
        self.tmodule_subclass = type("MyTModule", (MyTModule,), {})
        for iid, w in design["inputs"].items():
            self.inputs[iid] = Signal(w, name=iid)
        for g in design.get("groups", []):
            if g.get("owner") is None:
                _make_group(self, g)
        for md in design["methods"]:
            if md.get("owner") is None and md.get("group") is None:
                _make_method(self, md)
        self.mods = [GenModule(self, i, spec) for i, spec in enumerate(design["modules"])]
        for gm in self.mods:  # built through `build()`, never through Fragment.get
            gm._MustUse__silence = True  # type: ignore

    def inp(self, iid: str) -> Signal:
        return self.inputs[iid]

    def callable(self, ref: str, via_group: bool):
        md = self.mdesc[ref]
        if via_group and md.get("group"):
            return self.groups[md["group"][0]]  # Methods.__call__ (count == 1)
        return self.methods[ref]

    def obj(self, name: str):
        return self.transactions[name] if name in self.transactions else self.methods[name]

    def elaborate(self, platform):
        m = TModule()
        self.tmodules.append(m)
        for gm in self.mods:
            m.submodules[gm.name] = gm.build()
        prio = {"U": Priority.UNDEFINED, "L": Priority.LEFT, "R": Priority.RIGHT}
        for r in self.design["relations"]:
            a, b = self.obj(r["a"]), self.obj(r["b"])
            if r["k"] == "conflict":
                a.add_conflict(b, prio[r["prio"]])
            elif r["k"] == "before":
                a.schedule_before(b, ready_dependent=bool(r.get("rd")))
            else:
                raise ValueError(r["k"])
        return m
