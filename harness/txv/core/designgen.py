"""Seeded random generator of ABSTRACT Transactron designs (JSON-able trees).

Design language (interpreted with the real API by interp.py; described statically by analysis.py):

  design  = {"inputs": {id: width}, "methods": [mdecl], "groups": [gdecl],
             "modules": [{"name", "block", "subclass": 0|1 (built from a trivial subclass of TModule)}],
             "relations": [rel], "tag": str, "seed": int, "vseed": int, "inject": kind|None}
  mdecl   = {"ref", "iw", "ow", "owner": module index | None, "group": [gname, index] | None,
             "fields": [w0, w1] (optional: multi-field input layout f0,f1; iw = w0+w1; call sites carry "argform":
             "dict"|"kw"|"view" (positional View, same field names in the opposite order)|"view_same")}
  gdecl   = {"name", "count", "iw", "ow", "owner"}                          (a `Methods` object)
  stmt    = {"k":"if","uid","alts":[{"cond": id | None(=Else), "block"}]}
          | {"k":"switch","uid","test": id,"w","cases":[{"pats":[ints] | None(=Default), "block"}]}
          | {"k":"fsm","uid","state": id,"states":[{"name","block"}]}
          | {"k":"trans","name","ready": id|None,"block"}
          | {"k":"method","ref","ready": id|None,"nonexclusive","combiner": None|"or"|"sum"|"xor"|"count",
             "single_caller","validate": None|[kind,c] (eq/ne/lt/bit on the argument; sig/nsig, c = input id: guard of a
             zero-argument method),"out":[kind(,c)],"loc": id|None,"sugar","block"}
          | {"k":"call","site","ref","enable": id|None|{"const":0|1,"form":"C"|"int"|"bool"},"arg": id|int|None,"kw","via_group"}
          | {"k":"provide","ref","target"} | {"k":"provide_group","group","targets":[refs]}
  rel     = {"k":"conflict","a","b","prio":"U|L|R"} | {"k":"before","a","b","rd":0|1}

Reserved for the C12/C13 extension (not generated, not interpreted yet):
  {"k":"condition",...} statements and {"k":"simultaneous",...} relations.

Streams:
  gen_valid(rng, P)              mostly well-formed designs (checked with analysis.classify, resampled)
  gen_injected(rng, P, kind)     a well-formed design plus exactly ONE defect of `kind`
  gen_accept_case(rng, P, kind)  the C11 accept families (k alternatives / nonexclusive multi-call)
"""

from __future__ import annotations

import copy
import random
from typing import Optional

from .analysis import Desc, classify

DEFAULT_P = {
    "n_trans": (3, 6),
    "n_meth": (3, 7),
    "n_alias": (0, 2),
    "n_modules": (1, 3),
    "p_nonexcl": 0.25,
    "p_validate": 0.3,
    "p_enable": 0.35,
    "p_ready_t": 0.8,
    "p_ready_m": 0.6,
    "p_struct": 0.45,  # a statement of a body block is a control structure
    "p_same_in_alts": 0.5,  # a structure calls one method in every alternative
    "p_mcall": 0.5,  # a method body calls further methods
    "max_depth": 2,
    "p_nest": 0.07,  # a body is defined inside another body
    "p_wrap": 0.12,  # top-level bodies are wrapped into alternatives of a module-level structure
    "n_conflict": (0, 2),
    "n_before": (0, 2),
    "p_rd": 0.4,
    "p_single": 0.08,
    "p_group": 0.2,
    "p_custom_comb": 0.25,
    "share": 0.4,  # transactions prefer a small pool of callees
}

INJECT_KINDS = ["doubleCall", "cycle", "unsatPriority", "singleCaller", "readyDepConflict", "sameTransConflict",
                "sameTransMixed", "aliasDouble", "nonexclTwice", "cycleUncalled"]
# the reject kind an injected defect is expected to be classified as (analysis.classify decides)
EXPECT_KIND = {"sameTransMixed": "sameTransConflict", "aliasDouble": "doubleCall", "nonexclTwice": "doubleCall",
               "cycleUncalled": "cycle"}
ACCEPT_KINDS = ["alts_if", "alts_switch", "alts_fsm", "nonexcl_multi", "same_trans_excl", "alias_alts", "nonexcl_alts",
                "cross_module"]


def _rint(rng, lohi):
    return rng.randint(lohi[0], lohi[1])


def _rel_diff(p, q) -> bool:
    for (u1, a1), (u2, a2) in zip(p, q):
        if (u1, a1) == (u2, a2):
            continue
        return u1 == u2
    return False


class Gen:
    def __init__(self, rng: random.Random, P: dict):
        self.rng = rng
        self.P = {**DEFAULT_P, **P}
        self.inputs: dict[str, int] = {}
        self.n_uid = 0
        self.n_site = 0
        self.methods: list[dict] = []  # declarations (defined + aliases)
        self.groups: list[dict] = []
        self.mdef: dict[str, dict] = {}  # ref -> method statement
        self.tdef: dict[str, dict] = {}
        self.provide: dict[str, str] = {}
        self.provide_stmts: list[dict] = []
        self.relations: list[dict] = []
        self.modules: list[dict] = []

    # ---------------------------------------------------------------- small helpers
    def inp(self, w: int, pre: str = "i") -> str:
        name = f"{pre}{len(self.inputs)}"
        self.inputs[name] = w
        return name

    def uid(self) -> int:
        self.n_uid += 1
        return self.n_uid - 1

    def site(self) -> int:
        self.n_site += 1
        return self.n_site - 1

    def decl(self, ref) -> dict:
        return next(m for m in self.methods if m["ref"] == ref)

    def resolve(self, ref: str) -> str:
        while ref in self.provide:
            ref = self.provide[ref]
        return ref

    def closure_excl(self, ref: str) -> frozenset:
        """exclusive methods reachable through a call of `ref` (including itself)"""
        m = self.resolve(ref)
        out = set()
        st = self.mdef[m]
        if not st.get("nonexclusive"):
            out.add(m)
        for s in self._calls_in(st["block"]):
            out |= self.closure_excl(s["ref"])
        return frozenset(out)

    def reach(self, ref: str) -> set:
        m = self.resolve(ref)
        out = {m}
        for s in self._calls_in(self.mdef[m]["block"]):
            out |= self.reach(s["ref"])
        return out

    def _calls_in(self, block) -> list[dict]:
        out = []
        for s in block:
            k = s["k"]
            if k == "call":
                out.append(s)
            elif k == "if":
                for a in s["alts"]:
                    out += self._calls_in(a["block"])
            elif k == "switch":
                for c in s["cases"]:
                    out += self._calls_in(c["block"])
            elif k == "fsm":
                for st in s["states"]:
                    out += self._calls_in(st["block"])
            # nested bodies: their calls belong to them, not to the enclosing body
        return out

    # ---------------------------------------------------------------- declarations
    def make_method_decls(self, n_modules: int):
        rng, P = self.rng, self.P
        n = _rint(rng, P["n_meth"])
        for i in range(n):
            iw = rng.choice([0, 1, 2, 2, 2, 3])
            ow = rng.choice([0, 1, 2, 2])
            owner = rng.choice([None] + list(range(n_modules)))
            md = {"ref": f"m{i}", "iw": iw, "ow": ow, "owner": owner, "group": None}
            if iw >= 2 and rng.random() < P.get("p_fields", 0.25):
                # a multi-field input layout (fields f0, f1 of these widths; f0 in the low bits of the flat value)
                md["fields"] = rng.choice([[1, iw - 1], [iw - 1, 1]])
            self.methods.append(md)
        self.defined = [m["ref"] for m in self.methods]

    def make_method_stmt(self, ref: str) -> dict:
        rng, P = self.rng, self.P
        d = self.decl(ref)
        iw, ow = d["iw"], d["ow"]
        nonex = rng.random() < P["p_nonexcl"] and not d.get("fields")
        comb = None
        if nonex and iw > 0:
            comb = rng.choice(["or", "sum", "xor", "count"])
        elif iw > 0 and not d.get("fields") and rng.random() < P["p_custom_comb"] * 0.3:
            comb = "or"  # an exclusive method with an explicit combiner
        validate = None
        if iw > 0 and rng.random() < P["p_validate"] and not d.get("fields"):
            kind = rng.choice(["eq", "ne", "lt", "bit", "mbit", "mnz", "minc"] + (["mlow2"] if iw == 2 else []))
            if kind in ("mnz", "mlow2", "minc"):  # multi-bit results, no parameter
                validate = [kind, 0]
            elif kind in ("bit", "mbit"):
                validate = [kind, rng.randrange(iw)]
            elif kind == "lt":
                validate = [kind, rng.randrange(1, 1 << iw)]
            else:
                validate = [kind, rng.randrange(1 << iw)]
        if iw == 0 and rng.random() < P["p_validate"] * 0.5:
            # a zero-argument method with a per-caller guard: validate_arguments=lambda: g  /  lambda: ~g
            validate = [rng.choice(["sig", "nsig"]), self.inp(1, "g")]
        out = ["const", 0]
        loc = None
        if ow > 0:
            kind = rng.choice(["const", "loc", "xorLoc", "addLoc", "xorLoc", "addLoc"])
            if kind == "const":
                out = ["const", rng.randrange(1 << ow)]
            else:
                out = [kind]
                loc = self.inp(ow, "l")
        return {
            "k": "method",
            "ref": ref,
            "ready": self.inp(1, "r") if rng.random() < P["p_ready_m"] else None,
            "nonexclusive": int(nonex),
            "combiner": comb,
            "single_caller": 0,
            "validate": validate,
            "out": out,
            "loc": loc,
            "sugar": int(rng.random() < 0.4),
            "block": [],
        }

    def make_aliases(self, n_modules: int):
        rng, P = self.rng, self.P
        for i in range(_rint(rng, P["n_alias"])):
            tgt = rng.choice([m["ref"] for m in self.methods])
            d = self.decl(tgt)
            ref = f"al{i}"
            self.methods.append({"ref": ref, "iw": d["iw"], "ow": d["ow"], "owner": rng.choice([None] + list(range(n_modules))), "group": None,
                                 **({"fields": d["fields"]} if d.get("fields") else {})})
            self.provide[ref] = tgt
            self.provide_stmts.append({"k": "provide", "ref": ref, "target": tgt})
        if rng.random() < P["p_group"] and any(not self.decl(r).get("fields") for r in self.defined):
            # a `Methods` group of aliases with a common layout, provided through Methods.provide
            base = rng.choice([r for r in self.defined if not self.decl(r).get("fields")] or self.defined)
            d = self.decl(base)
            same = [r for r in self.defined if (self.decl(r)["iw"], self.decl(r)["ow"], self.decl(r).get("fields")) == (d["iw"], d["ow"], d.get("fields"))]
            count = rng.choice([1, 1, 2]) if len(same) > 1 else 1
            tgts = [base] + [rng.choice(same) for _ in range(count - 1)]
            g = {"name": "g0", "count": count, "iw": d["iw"], "ow": d["ow"], "owner": rng.choice([None] + list(range(n_modules)))}
            self.groups.append(g)
            for j, t in enumerate(tgts):
                ref = f"g0_{j}"
                self.methods.append({"ref": ref, "iw": d["iw"], "ow": d["ow"], "owner": g["owner"], "group": ["g0", j]})
                self.provide[ref] = t
            self.provide_stmts.append({"k": "provide_group", "group": "g0", "targets": tgts})

    # ---------------------------------------------------------------- body blocks
    def make_call(self, ref: str) -> dict:
        rng, P = self.rng, self.P
        d = self.decl(ref)
        arg = None
        if d["iw"] > 0:
            arg = self.inp(d["iw"], "a") if rng.random() < 0.9 else rng.randrange(1 << d["iw"])
        return {
            "k": "call",
            "site": self.site(),
            "ref": ref,
            "enable": self.gen_enable(),
            "arg": arg,
            "kw": int(rng.random() < 0.5),
            "argform": rng.choice(["dict", "kw", "view", "view", "view_same"]),  # used by multi-field methods only
            "via_group": int(bool(d.get("group")) and self._group_count(d) == 1 and rng.random() < 0.5),
        }

    def gen_enable(self):
        rng, P = self.rng, self.P  # noqa: F841
        x = rng.random()
        if x < P.get("p_const_enable", 0.1):  # constant enables: C(0), C(1), 0, 1, False, True
            return {"const": rng.choice([0, 0, 1]), "form": rng.choice(["C", "int", "bool"])}
        return self.inp(1, "e") if x < P.get("p_const_enable", 0.1) + P["p_enable"] else None

    def _group_count(self, d) -> int:
        return next(g["count"] for g in self.groups if g["name"] == d["group"][0])

    def compatible(self, placed, pos, ref) -> bool:
        cl = self.closure_excl(ref)
        return all(not (cl & c2) or _rel_diff(pos, p2) for p2, c2 in placed)

    def gen_block(self, pool: list[str], placed: list, pos: tuple, depth: int, want: int) -> list[dict]:
        rng, P = self.rng, self.P
        stmts: list[dict] = []
        for _ in range(want):
            if depth < P["max_depth"] and rng.random() < P["p_struct"]:
                stmts.append(self.gen_struct(pool, placed, pos, depth))
            else:
                for _try in range(4):
                    ref = rng.choice(pool)
                    if self.compatible(placed, pos, ref):
                        placed.append((pos, self.closure_excl(ref)))
                        stmts.append(self.make_call(ref))
                        break
        return stmts

    def gen_struct(self, pool, placed, pos, depth, kind: Optional[str] = None, k: Optional[int] = None, same: Optional[str] = None) -> dict:
        rng, P = self.rng, self.P
        kind = kind or rng.choice(["if", "if", "switch", "fsm"])
        k = k or rng.choice([1, 2, 2, 3] if kind == "if" else [2, 2, 3])
        u = self.uid()
        if same is None and rng.random() < P["p_same_in_alts"]:
            cands = [r for r in pool if self.compatible(placed, pos + ((u, 0),), r)]
            same = rng.choice(cands) if cands else None
        blocks = []
        for a in range(k):
            p = pos + ((u, a),)
            blk = []
            if same is not None and self.compatible(placed, p, same):
                placed.append((p, self.closure_excl(same)))
                blk.append(self.make_call(same))
            blk += self.gen_block(pool, placed, p, depth + 1, rng.choice([0, 0, 1, 1, 2]) if same else rng.choice([0, 1, 1, 2]))
            rng.shuffle(blk)
            blocks.append(blk)
        return self.wrap_struct(kind, u, blocks)

    def wrap_struct(self, kind: str, u: int, blocks: list[list]) -> dict:
        rng = self.rng
        k = len(blocks)
        if kind == "if":
            alts = []
            for a, blk in enumerate(blocks):
                is_else = a == k - 1 and k > 1 and rng.random() < 0.5
                alts.append({"cond": None if is_else else self.inp(1, "c"), "block": blk})
            return {"k": "if", "uid": u, "alts": alts}
        if kind == "switch":
            w = 2
            vals = list(range(1 << w))
            rng.shuffle(vals)
            cases = []
            for a, blk in enumerate(blocks):
                if a == k - 1 and rng.random() < 0.4:
                    cases.append({"pats": None, "block": blk})
                else:
                    n = 2 if (len(vals) > (k - a) and rng.random() < 0.3) else 1
                    cases.append({"pats": sorted(vals.pop() for _ in range(n)), "block": blk})
            return {"k": "switch", "uid": u, "test": self.inp(w, "s"), "w": w, "cases": cases}
        if kind == "fsm":
            return {"k": "fsm", "uid": u, "state": f"f{u}", "states": [{"name": f"S{a}", "block": blk} for a, blk in enumerate(blocks)]}
        raise ValueError(kind)

    # ---------------------------------------------------------------- whole design
    def build(self) -> dict:
        rng, P = self.rng, self.P
        nmod = _rint(rng, P["n_modules"])
        self.make_method_decls(nmod)
        self.make_aliases(nmod)
        # method bodies bottom-up (a method only calls methods with a larger index: no recursion)
        for i in reversed(range(len(self.defined))):
            ref = self.defined[i]
            st = self.make_method_stmt(ref)
            self.mdef[ref] = st
            later = set(self.defined[i + 1 :])
            pool = [m["ref"] for m in self.methods if self.resolve(m["ref"]) in later and self.resolve(m["ref"]) in self.mdef]
            if pool and rng.random() < (max(P["p_mcall"], 0.8) if st["nonexclusive"] else P["p_mcall"]):
                st["block"] = self.gen_block(pool, [], (), 0, rng.choice([1, 1, 2]))
        # transactions
        allrefs = [m["ref"] for m in self.methods]
        hot = rng.sample(allrefs, min(len(allrefs), rng.choice([1, 1, 2])))
        for i in range(_rint(rng, P["n_trans"])):
            name = f"t{i}"
            pool = hot if rng.random() < P["share"] else allrefs
            st = {"k": "trans", "name": name, "ready": self.inp(1, "r") if rng.random() < P["p_ready_t"] else None, "block": []}
            st["block"] = self.gen_block(pool, [], (), 0, rng.choice([1, 1, 2, 2, 3]))
            self.tdef[name] = st
        for ref, st in self.mdef.items():
            if rng.random() < P["p_single"]:
                st["single_caller"] = 1
        self.place(nmod)
        self.make_relations()
        return self.design()

    def design(self) -> dict:
        return {
            "inputs": dict(self.inputs),
            "methods": copy.deepcopy(self.methods),
            "groups": copy.deepcopy(self.groups),
            "modules": self.modules,
            "relations": self.relations,
            "nsites": self.n_site,
        }

    # ---------------------------------------------------------------- placement
    def _alts_of(self, block) -> list[list]:
        """all alternative blocks (recursively) inside `block`, not entering nested bodies"""
        out = []
        for s in block:
            subs = []
            if s["k"] == "if":
                subs = [a["block"] for a in s["alts"]]
            elif s["k"] == "switch":
                subs = [c["block"] for c in s["cases"]]
            elif s["k"] == "fsm":
                subs = [x["block"] for x in s["states"]]
            for b in subs:
                out.append(b)
                out += self._alts_of(b)
        return out

    def place(self, nmod: int):
        rng, P = self.rng, self.P
        bodies = {**{r: s for r, s in self.mdef.items()}, **self.tdef}
        home = {}
        for name in bodies:
            if name in self.mdef and self.decl(name)["owner"] is not None and rng.random() < 0.7:
                home[name] = self.decl(name)["owner"]
            else:
                home[name] = rng.randrange(nmod)
        # nesting
        parent: dict[str, str] = {}
        names = list(bodies)
        rng.shuffle(names)

        def tset(x):  # transactions that run body x
            if x in self.tdef:
                return {x}
            return {t for t, st in self.tdef.items() if any(x in self.reach(c["ref"]) for c in self._calls_in(st["block"]))}

        for name in names:
            if rng.random() >= P["p_nest"]:
                continue
            cands = [p for p in names if p != name and home[p] == home[name] and p not in parent and name not in parent.values()]
            cands = [p for p in cands if not (tset(p) & tset(name))]
            if name in self.tdef:
                # a nested transaction must not conflict with an enclosing transaction
                cl = frozenset().union(*[self.closure_excl(c["ref"]) for c in self._calls_in(self.tdef[name]["block"])] or [frozenset()])
                ok = []
                for p in cands:
                    if p in self.tdef:
                        clp = frozenset().union(*[self.closure_excl(c["ref"]) for c in self._calls_in(self.tdef[p]["block"])] or [frozenset()])
                        if cl & clp:
                            continue
                    ok.append(p)
                cands = ok
            if not cands:
                continue
            p = rng.choice(cands)
            parent[name] = p
            spots = [bodies[p]["block"]] + self._alts_of(bodies[p]["block"])
            blk = rng.choice(spots)
            blk.insert(rng.randrange(len(blk) + 1), bodies[name])
        # module blocks
        self.modules = []
        for mi in range(nmod):
            tops = [n for n in bodies if home[n] == mi and n not in parent]
            rng.shuffle(tops)
            block: list[dict] = []
            i = 0
            while i < len(tops):
                if len(tops) - i >= 2 and rng.random() < P["p_wrap"]:
                    k = rng.choice([2, 2, 3])
                    grp = tops[i : i + k]
                    i += len(grp)
                    kind = rng.choice(["if", "switch", "fsm"])
                    block.append(self.wrap_struct(kind, self.uid(), [[bodies[n]] for n in grp]))
                elif rng.random() < P["p_wrap"] * 0.4:
                    block.append(self.wrap_struct("if", self.uid(), [[bodies[tops[i]]]]))
                    i += 1
                else:
                    block.append(bodies[tops[i]])
                    i += 1
            self.modules.append({"name": f"mod{mi}", "block": block, "subclass": int(rng.random() < 0.35)})
        for ps in self.provide_stmts:
            blk = self.modules[rng.randrange(nmod)]["block"]
            blk.insert(rng.randrange(len(blk) + 1), ps)

    # ---------------------------------------------------------------- relations
    def make_relations(self):
        rng, P = self.rng, self.P
        # sources and destinations: transactions, defined methods and provide()-aliases
        # (relations declared ON an alias are honoured since fix 45725ee; F-core1-1 is a regression witness)
        srcs = list(self.tdef) + list(self.mdef) + [m["ref"] for m in self.methods if m["ref"] not in self.mdef]
        dsts = list(srcs)
        cands = []
        for _ in range(_rint(rng, P["n_conflict"]) * 3):
            a, b = rng.choice(srcs), rng.choice(dsts)
            if a != b:
                cands.append({"k": "conflict", "a": a, "b": b, "prio": rng.choice(["U", "L", "R", "L", "R"])})
        nconf = _rint(rng, P["n_conflict"])
        for _ in range(_rint(rng, P["n_before"]) * 3):
            a, b = rng.choice(srcs), rng.choice(dsts)
            if a != b:
                cands.append({"k": "before", "a": a, "b": b, "rd": int(rng.random() < P["p_rd"])})
        nbef = _rint(rng, P["n_before"])
        rng.shuffle(cands)
        have = {"conflict": 0, "before": 0}
        lim = {"conflict": nconf, "before": nbef}
        for r in cands:
            if have[r["k"]] >= lim[r["k"]]:
                continue
            self.relations.append(r)
            if classify(Desc(self.design()))["must"] != "accept":
                self.relations.pop()
            else:
                have[r["k"]] += 1
        # stacked declarations on one ordered pair (every declared relation counts): plain + ready_dependent
        # schedule_before in both orders, schedule_before + add_conflict in both orders, add_conflict twice
        for r in list(self.relations):
            if rng.random() >= P.get("p_stack", 0.3):
                continue
            if r["k"] == "before":
                extra = rng.choice([{**r, "rd": 1 - r["rd"]}, {"k": "conflict", "a": r["a"], "b": r["b"], "prio": rng.choice(["U", "L"])}])
            else:
                extra = rng.choice([{**r, "prio": rng.choice(["U", "L", "R"])}, {"k": "before", "a": r["a"], "b": r["b"], "rd": rng.choice([0, 1])}])
            pos = self.relations.index(r) + rng.choice([0, 1])
            self.relations.insert(pos, extra)
            if classify(Desc(self.design()))["must"] != "accept":
                self.relations.pop(pos)


# -------------------------------------------------------------------------------------- streams
def gen_valid(rng: random.Random, P: Optional[dict] = None, tries: int = 12) -> dict:
    """a design of the ordinary stream; `tag` says what analysis.classify thinks of it"""
    P = P or {}
    cap = P.get("max_chains", 150)
    best = None
    fallback = None
    for k in range(tries + 8):
        if k >= tries and (best is not None or fallback is not None):
            break
        sub = random.Random(rng.getrandbits(48))
        d = Gen(sub, P).build()
        desc = Desc(d)
        # the number of call chains is exponential in the depth of shared call DAGs: keep designs small
        # enough for the (quadratic-in-chains) analyses of manager, model and monitors
        if not desc.has_cycle() and sum(len(desc.chains(b)) for b in desc.order) > cap:
            fallback = fallback or d
            continue
        c = classify(desc)
        d["tag"] = "valid" if c["must"] == "accept" else ("grey" if c["must"] is None else "invalid")
        best = d
        if d["tag"] == "valid" or rng.random() < 0.08:  # keep a few not-clean designs in the ordinary stream
            break
    if best is None:
        best = fallback
        c = classify(Desc(best))
        best["tag"] = "valid" if c["must"] == "accept" else ("grey" if c["must"] is None else "invalid")
    best["inject"] = None
    best["vseed"] = rng.getrandbits(32)
    return best


def _bodies(design):
    return Desc(design)


def _find_body_stmt(design: dict, name: str) -> dict:
    return Desc(design).bodies[name].stmt


def _fresh_leaf(design: dict, rng, tag: str, iw: int = 0, **flags) -> str:
    """add a fresh always-ready exclusive leaf method definition to a random module"""
    ref = f"x{tag}{len(design['methods'])}"
    design["methods"].append({"ref": ref, "iw": iw, "ow": 0, "owner": None, "group": None})
    st = {"k": "method", "ref": ref, "ready": None, "nonexclusive": 0, "combiner": None, "single_caller": 0,
          "validate": None, "out": ["const", 0], "loc": None, "sugar": 0, "block": []}
    st.update(flags)
    design["modules"][rng.randrange(len(design["modules"]))]["block"].insert(0, st)
    return ref


def _new_input(design, w, pre):
    name = f"{pre}{len(design['inputs'])}x"
    design["inputs"][name] = w
    return name


def _new_site(design) -> int:
    design["nsites"] = design.get("nsites", 0) + 1
    return design["nsites"] - 1


def _call(design, ref, rng, enable=False) -> dict:
    d = next(m for m in design["methods"] if m["ref"] == ref)
    en = None
    if enable:
        en = {"const": rng.choice([0, 1]), "form": rng.choice(["C", "int", "bool"])} if rng.random() < 0.2 else _new_input(design, 1, "e")
    return {"k": "call", "site": _new_site(design), "ref": ref, "enable": en,
            "arg": _new_input(design, d["iw"], "a") if d["iw"] else None, "kw": 0, "via_group": 0}


def _fresh_trans(design, rng, tag: str, module: Optional[int] = None) -> dict:
    name = f"t{tag}{len(Desc(design).transactions)}"
    st = {"k": "trans", "name": name, "ready": _new_input(design, 1, "r"), "block": []}
    mi = rng.randrange(len(design["modules"])) if module is None else module
    design["modules"][mi]["block"].append(st)
    return st


def inject(design: dict, rng: random.Random, kind: str) -> dict:
    """insert exactly one defect of `kind` into (a copy of) a well-formed design"""
    d = copy.deepcopy(design)
    desc = Desc(d)
    ts = desc.transactions
    variant = rng.randrange(3)
    if kind == "doubleCall":
        # a transaction reaches an exclusive method twice on paths that are not exclusive
        cands = [(t, ch) for t in ts for ch in desc.chains(t) if not desc.bodies[desc.target(ch)].nonexclusive]
        if cands and variant != 2:
            t, ch = rng.choice(cands)
            x = desc.target(ch)
            new = _call(d, x, rng, enable=rng.random() < 0.5)
            blk = desc.bodies[t].stmt["block"]
            if variant == 0:
                blk.append(new)  # same block / enclosing block
            else:
                blk.append({"k": "if", "uid": 1000 + len(desc.structs), "alts": [{"cond": _new_input(d, 1, "c"), "block": [new]}]})  # parallel If
        else:
            x = _fresh_leaf(d, rng, "d")
            mid = _fresh_leaf(d, rng, "n", nonexclusive=1)
            _find_body_stmt(d, mid)["block"].append(_call(d, x, rng))
            t = _fresh_trans(d, rng, "d")
            t["block"].append(_call(d, x, rng))
            t["block"].append(_call(d, mid, rng))  # second path through a nonexclusive method
    elif kind == "cycle":
        ms = desc.methods
        if variant == 0 or len(ms) < 2:
            m = rng.choice(ms)
            desc.bodies[m].stmt["block"].append(_call(d, m, rng))
        else:
            pairs = [(a, b) for a in ms for b in desc.tree_methods(a)]
            if pairs:
                a, b = rng.choice(pairs)
                desc.bodies[b].stmt["block"].append(_call(d, a, rng))
            else:
                m = rng.choice(ms)
                desc.bodies[m].stmt["block"].append(_call(d, m, rng))
    elif kind == "unsatPriority":
        ta = _fresh_trans(d, rng, "p")
        tb = _fresh_trans(d, rng, "p")
        if variant == 0:
            d["relations"] += [{"k": "conflict", "a": ta["name"], "b": tb["name"], "prio": "L"},
                               {"k": "conflict", "a": tb["name"], "b": ta["name"], "prio": "L"}]
        elif variant == 1:
            x, y = _fresh_leaf(d, rng, "p"), _fresh_leaf(d, rng, "p")
            ta["block"].append(_call(d, x, rng))
            tb["block"].append(_call(d, y, rng))
            d["relations"] += [{"k": "conflict", "a": x, "b": y, "prio": "L"},
                               {"k": "conflict", "a": ta["name"], "b": tb["name"], "prio": "R"}]
        else:
            tc = _fresh_trans(d, rng, "p")
            d["relations"] += [{"k": "conflict", "a": ta["name"], "b": tb["name"], "prio": "L"},
                               {"k": "conflict", "a": tb["name"], "b": tc["name"], "prio": "L"},
                               {"k": "conflict", "a": tc["name"], "b": ta["name"], "prio": "L"}]
    elif kind == "singleCaller":
        x = _fresh_leaf(d, rng, "s", single_caller=1)
        ta = _fresh_trans(d, rng, "s")
        tb = _fresh_trans(d, rng, "s") if variant or not ts else None
        ta["block"].append(_call(d, x, rng))
        if tb is not None:
            tb["block"].append(_call(d, x, rng, enable=True))
        else:
            desc.bodies[rng.choice(ts)].stmt["block"].append(_call(d, x, rng))
    elif kind == "readyDepConflict":
        mi = rng.randrange(len(d["modules"]))
        ta = _fresh_trans(d, rng, "r", mi)
        if variant == 2:
            # nesting: a transaction defined inside another one, both using one exclusive method
            x = _fresh_leaf(d, rng, "r")
            tb = {"k": "trans", "name": ta["name"] + "n", "ready": _new_input(d, 1, "r"), "block": []}
            ta["block"].append(_call(d, x, rng))
            ta["block"].append(tb)
            tb["block"].append(_call(d, x, rng))
        else:
            tb = _fresh_trans(d, rng, "r", mi)
            d["relations"].append({"k": "before", "a": ta["name"], "b": tb["name"], "rd": 1})
            if variant == 0:
                d["relations"].append({"k": "conflict", "a": ta["name"], "b": tb["name"], "prio": "U"})
            else:
                x = _fresh_leaf(d, rng, "r")
                ta["block"].append(_call(d, x, rng))
                tb["block"].append(_call(d, x, rng))
    elif kind == "sameTransConflict":
        t = _fresh_trans(d, rng, "c")
        x = _fresh_leaf(d, rng, "c")
        t["block"].append(_call(d, x, rng))
        if variant == 0:
            d["relations"].append({"k": "conflict", "a": t["name"], "b": x, "prio": rng.choice(["U", "L", "R"])})
        else:
            y = _fresh_leaf(d, rng, "c")
            t["block"].append(_call(d, y, rng, enable=True))
            d["relations"].append({"k": "conflict", "a": x, "b": y, "prio": rng.choice(["U", "L", "R"])})
    else:
        raise ValueError(kind)
    d["inject"] = kind
    d["tag"] = f"inject:{kind}"
    return d


def _helper_gen(d: dict, rng, P) -> "Gen":
    g = Gen(rng, P or {})
    g.inputs = d["inputs"]
    g.n_uid = 3000 + len(Desc(d).structs)
    return g


def _fresh_alias(d: dict, rng, target: str, tag: str) -> str:
    td = next(m for m in d["methods"] if m["ref"] == target)
    ref = f"y{tag}{len(d['methods'])}"
    d["methods"].append({"ref": ref, "iw": td["iw"], "ow": td["ow"], "owner": rng.choice([None, 0]), "group": None,
                         **({"fields": td["fields"]} if td.get("fields") else {})})
    blk = d["modules"][rng.randrange(len(d["modules"]))]["block"]
    blk.insert(rng.randrange(len(blk) + 1), {"k": "provide", "ref": ref, "target": target})
    return ref


def _trans_names_calling(d: dict, refs: list) -> list:
    desc = Desc(d)
    out = [t for t in desc.transactions if any(desc.sites[s].ref in refs for s in desc.bodies[t].sites)]
    return out or desc.transactions


def same_trans_family(d: dict, rng: random.Random, P, must_reject: bool):
    """One transaction `t` reaches both ends of an add_conflict relation from several call sites placed in the
    alternatives of one If/Switch/FSM.
      must-accept: every pair (site of a, site of b) sits in different alternatives (the relation is vacuous for t)
      must-reject: additionally one pair shares an alternative (other pairs stay exclusive: a mixed situation)
    The relation's end may be nonexclusive and is also called by transactions defined BEFORE and AFTER `t`
    (they get no implicit conflict with `t`, only the lifted one), in both declaration directions."""
    g = _helper_gen(d, rng, P)
    mi = rng.randrange(len(d["modules"]))
    a = _fresh_leaf(d, rng, "q", iw=rng.choice([0, 2]))
    b = _fresh_leaf(d, rng, "q", nonexclusive=int(rng.random() < 0.6))
    if rng.random() < 0.6:
        _fresh_trans(d, rng, "q", mi)["block"].append(_call(d, b, rng))
    t = _fresh_trans(d, rng, "q", mi)
    k = rng.choice([2, 3])
    blocks: list = [[] for _ in range(k)]
    blocks[0].append(_call(d, a, rng, enable=rng.random() < 0.3))
    blocks[1].append(_call(d, b, rng, enable=rng.random() < 0.3))
    if k == 3:
        blocks[2].append(_call(d, rng.choice([a, b]), rng))
    elif rng.random() < 0.5:
        pass
    if must_reject:
        if rng.random() < 0.5:
            blocks[0].append(_call(d, b, rng))  # (a, b) share alternative 0; the other b stays exclusive with a
        else:
            blocks[1].insert(0, _call(d, a, rng))
    kind = rng.choice(["if", "switch", "fsm"])
    st = g.wrap_struct(kind, g.uid(), blocks)
    if kind == "if" and must_reject is False and st["alts"][-1]["cond"] is not None and rng.random() < 0.5:
        st["alts"][-1]["cond"] = None
    t["block"].append(st)
    for _ in range(rng.choice([1, 1, 2])):
        _fresh_trans(d, rng, "q", mi)["block"].append(_call(d, b, rng, enable=rng.random() < 0.3))
    if rng.random() < 0.5:
        _fresh_trans(d, rng, "q", mi)["block"].append(_call(d, a, rng))
    x, y = (a, b) if rng.random() < 0.6 else (b, a)
    d["relations"].append({"k": "conflict", "a": x, "b": y, "prio": rng.choice(["U", "L", "R", "L", "R"])})
    if not must_reject and rng.random() < 0.5:
        # an extra conflict on one side, so that the number of conflicts (the manager's tie-break key)
        # differs between the two-branch transaction and the other callers
        side = rng.choice(_trans_names_calling(d, [a, b]))
        tx = _fresh_trans(d, rng, "q", mi)
        pair = (side, tx["name"]) if rng.random() < 0.5 else (tx["name"], side)
        d["relations"].append({"k": "conflict", "a": pair[0], "b": pair[1], "prio": "U"})


def alias_family(d: dict, rng: random.Random, P, must_reject: bool):
    """One root reaches one exclusive method body through two different Method objects (a provide()-alias and
    its target, or two aliases): at non-alternative places (must reject: called twice) or in different
    alternatives of one structure (must accept)."""
    g = _helper_gen(d, rng, P)
    x = _fresh_leaf(d, rng, "z", iw=rng.choice([0, 2]))
    al = _fresh_alias(d, rng, x, "z")
    second = _fresh_alias(d, rng, rng.choice([x, al]), "z") if rng.random() < 0.4 else x
    t = _fresh_trans(d, rng, "z")
    root = t
    if rng.random() < 0.3:  # the two calls sit in a method called by the transaction
        mid = _fresh_leaf(d, rng, "z", nonexclusive=int(rng.random() < 0.5))
        root = _find_body_stmt(d, mid)
        t["block"].append(_call(d, mid, rng))
    c1 = _call(d, al, rng, enable=rng.random() < 0.3)
    c2 = _call(d, second, rng, enable=rng.random() < 0.3)
    if must_reject:
        root["block"].append(c1)
        if rng.random() < 0.5:
            root["block"].append(c2)
        else:
            root["block"].append({"k": "if", "uid": g.uid(), "alts": [{"cond": _new_input(d, 1, "c"), "block": [c2]}]})
    else:
        root["block"].append(g.wrap_struct(rng.choice(["if", "switch", "fsm"]), g.uid(), [[c1], [c2]]))
    _fresh_trans(d, rng, "z")["block"].append(_call(d, rng.choice([x, al]), rng))


def nonexcl_twice_family(d: dict, rng: random.Random, P, must_reject: bool):
    """A nonexclusive method N whose call tree contains an exclusive method E is reached twice from one root:
    on non-exclusive control paths (directly twice, or once directly and once through a helper method) -
    E is then called twice: must reject - or in different alternatives of one structure (must accept)."""
    g = _helper_gen(d, rng, P)
    e = _fresh_leaf(d, rng, "w", iw=rng.choice([0, 2]))
    n = _fresh_leaf(d, rng, "w", nonexclusive=1)
    nb = _find_body_stmt(d, n)["block"]
    if rng.random() < 0.4:  # E below a further (nonexclusive or exclusive) level
        mid = _fresh_leaf(d, rng, "w", nonexclusive=int(rng.random() < 0.5))
        _find_body_stmt(d, mid)["block"].append(_call(d, e, rng))
        nb.append(_call(d, mid, rng, enable=rng.random() < 0.3))
    else:
        nb.append(_call(d, e, rng, enable=rng.random() < 0.3))
    t = _fresh_trans(d, rng, "w")
    if must_reject and rng.random() < 0.35:
        # the nonexclusive method itself calls E a second time on a non-exclusive path (two call sites of E
        # below one nonexclusive ancestor); the transaction calls N once
        c = _call(d, e, rng)
        nb.append(c if rng.random() < 0.5 else {"k": "if", "uid": g.uid(), "alts": [{"cond": _new_input(d, 1, "c"), "block": [c]}]})
        t["block"].append(_call(d, n, rng))
        _fresh_trans(d, rng, "w")["block"].append(_call(d, n, rng))
        return
    c1 = _call(d, n, rng, enable=rng.random() < 0.3)
    if rng.random() < 0.4:  # second path through a helper method
        h = _fresh_leaf(d, rng, "w", nonexclusive=int(rng.random() < 0.5))
        _find_body_stmt(d, h)["block"].append(_call(d, n, rng))
        c2 = _call(d, h, rng)
    else:
        c2 = _call(d, n, rng, enable=rng.random() < 0.3)
    if must_reject:
        t["block"].append(c1)
        if rng.random() < 0.5:
            t["block"].append(c2)
        else:
            t["block"].append({"k": "if", "uid": g.uid(), "alts": [{"cond": _new_input(d, 1, "c"), "block": [c2]}]})
    else:
        t["block"].append(g.wrap_struct(rng.choice(["if", "switch", "fsm"]), g.uid(), [[c1], [c2]]))
    _fresh_trans(d, rng, "w")["block"].append(_call(d, rng.choice([n, e]), rng))


def cross_module_family(d: dict, rng: random.Random, P, must_reject: bool = False):
    """(accept family) Two fresh modules built one right after the other, one from a TModule subclass and one
    from plain TModule, with structurally identical control positions: a transaction of the first calls an
    exclusive method under `If`, a transaction of the second under `Else` (or the transactions themselves
    are defined under If / Else and related by add_conflict).  Different modules: nothing is exclusive, the
    transactions conflict."""
    g = _helper_gen(d, rng, P)
    x = _fresh_leaf(d, rng, "v", iw=rng.choice([0, 2]))
    sub = rng.random() < 0.7
    names = []
    variant_def = rng.random() < 0.4  # same variant for both modules
    for k in range(2):
        t = {"k": "trans", "name": f"tv{len(d['modules'])}", "ready": _new_input(d, 1, "r"), "block": []}
        names.append(t["name"])
        call = _call(d, x if (not variant_def or rng.random() < 0.5) else _fresh_leaf(d, rng, "v"), rng)
        if variant_def:
            # the transaction itself is defined under If (first module) / Else (second module)
            t["block"].append(call)
            alts = [{"cond": _new_input(d, 1, "c"), "block": [t] if k == 0 else []}, {"cond": None, "block": [t] if k == 1 else []}]
            top = {"k": "if", "uid": g.uid(), "alts": alts}
        else:
            alts = [{"cond": _new_input(d, 1, "c"), "block": [call] if k == 0 else []}, {"cond": None, "block": [call] if k == 1 else []}]
            t["block"].append({"k": "if", "uid": g.uid(), "alts": alts})
            top = t
        d["modules"].append({"name": f"modv{len(d['modules'])}", "block": [top], "subclass": int(sub if k == 0 else not sub)})
    if variant_def or rng.random() < 0.5:
        a, b = names if rng.random() < 0.5 else names[::-1]
        d["relations"].append({"k": "conflict", "a": a, "b": b, "prio": rng.choice(["U", "L", "R"])})


def cycle_uncalled_family(d: dict, rng: random.Random, P, must_reject: bool = True):
    """mutual recursion of length 2-3 among fresh methods that nothing outside the cycle calls (no transaction
    reaches it), optionally entered from an (itself uncalled) entry method: must reject (a method calls itself)"""
    n = rng.choice([2, 2, 3])
    ms = [_fresh_leaf(d, rng, "k", nonexclusive=int(rng.random() < 0.3)) for _ in range(n)]
    for k in range(n):
        _find_body_stmt(d, ms[k])["block"].append(_call(d, ms[(k + 1) % n], rng, enable=rng.random() < 0.3))
    if rng.random() < 0.35:
        entry = _fresh_leaf(d, rng, "k")
        _find_body_stmt(d, entry)["block"].append(_call(d, rng.choice(ms), rng))


_FAMILIES = {"cycleUncalled": cycle_uncalled_family, "cross_module": cross_module_family, "sameTransMixed": same_trans_family, "aliasDouble": alias_family, "nonexclTwice": nonexcl_twice_family,
             "same_trans_excl": same_trans_family, "alias_alts": alias_family, "nonexcl_alts": nonexcl_twice_family}


def gen_injected(rng: random.Random, P: Optional[dict], kind: str) -> dict:
    for _ in range(10):
        base = gen_valid(rng, P)
        if base["tag"] != "valid":
            continue
        if kind in EXPECT_KIND:
            d = copy.deepcopy(base)
            _FAMILIES[kind](d, rng, P, True)
            d["inject"] = kind
            d["tag"] = f"inject:{kind}"
        else:
            d = inject(base, rng, kind)
        c = classify(Desc(d))
        if c["must"] == "reject" and EXPECT_KIND.get(kind, kind) in c["definite"]:
            d["vseed"] = base["vseed"]
            return d
    return d


def gen_accept_case(rng: random.Random, P: Optional[dict], kind: str) -> dict:
    """C11 accept families on top of a random well-formed design:
    alts_*        : a fresh exclusive method called in each of k alternatives of one If / Switch / FSM
                    of one transaction (k = 2..4), also called by a second transaction
    nonexcl_multi : a fresh nonexclusive method without exclusive callees called k times by one
                    transaction (same block, parallel Ifs) and by a second transaction"""
    for _ in range(10):
        base = gen_valid(rng, P)
        if base["tag"] == "valid":
            break
    d = copy.deepcopy(base)
    k = rng.choice([2, 3, 4])
    if kind in _FAMILIES:
        _FAMILIES[kind](d, rng, P, False)
        d["tag"] = f"accept:{kind}"
        d["inject"] = None
        d["k"] = 2
        return d
    g = Gen(rng, P or {})
    g.inputs = d["inputs"]
    g.n_uid = 2000
    t = _fresh_trans(d, rng, "a")
    t2 = _fresh_trans(d, rng, "a")
    if kind.startswith("alts_"):
        x = _fresh_leaf(d, rng, "a", iw=rng.choice([0, 2]))
        blocks = []
        for a in range(k if kind != "alts_switch" else min(k, 4)):
            blocks.append([_call(d, x, rng, enable=rng.random() < 0.3)])
        st = g.wrap_struct(kind[5:], g.uid(), blocks)
        t["block"].append(st)
        t2["block"].append(_call(d, x, rng))
    else:
        y = _fresh_leaf(d, rng, "a", nonexclusive=1)
        x = _fresh_leaf(d, rng, "a", nonexclusive=1)
        _find_body_stmt(d, x)["block"].append(_call(d, y, rng))
        for a in range(k):
            c = _call(d, x, rng, enable=rng.random() < 0.5)
            if rng.random() < 0.5:
                t["block"].append(c)
            else:
                t["block"].append({"k": "if", "uid": g.uid(), "alts": [{"cond": _new_input(d, 1, "c"), "block": [c]}]})
        t2["block"].append(_call(d, x, rng))
        t2["block"].append(_call(d, y, rng))
    d["tag"] = f"accept:{kind}"
    d["inject"] = None
    d["k"] = k
    return d


def stats(design: dict) -> dict:
    """distribution features of one design (for the evidence)"""
    desc = Desc(design)
    excl = [m for m in desc.methods if not desc.bodies[m].nonexclusive]
    shared = False
    branch = False
    nonex_anc = False
    depth = 0
    if not desc.has_cycle():
        for x in excl:
            users = [t for t in desc.transactions if x in desc.tree_methods(t)]
            if len(users) >= 2:
                shared = True
        for b in desc.order:
            chs = desc.chains(b)
            depth = max([depth] + [len(c) for c in chs])
            for i, c1 in enumerate(chs):
                for c2 in chs[i + 1 :]:
                    if desc.target(c1) == desc.target(c2) and desc.target(c1) in excl and desc.strict_excl(c1, c2):
                        branch = True
        for i, t1 in enumerate(desc.transactions):
            for t2 in desc.transactions[i + 1 :]:
                for c1 in desc.chains(t1):
                    for c2 in desc.chains(t2):
                        if desc.target(c1) == desc.target(c2) and desc.target(c1) in excl:
                            top = desc.top_common_method(c1, c2)
                            if top is not None and desc.bodies[top].nonexclusive:
                                nonex_anc = True
    return {
        "bodies": len(desc.order),
        "sites": len(desc.sites),
        "depth": depth,
        "shared_exclusive": shared,
        "exclusive_branch_calls": branch,
        "nonexclusive_ancestor": nonex_anc,
        "nested": any(b.parent for b in desc.bodies.values()),
        "aliases": bool(desc.provide),
        "def_in_struct": any(b.pos[1] for b in desc.bodies.values() if b.parent is None),
        "relations": len(design["relations"]),
        "validate": any(b.stmt.get("validate") for b in desc.bodies.values()),
    }
