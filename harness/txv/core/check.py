"""`run_core(ctx, pid)`: the check shared by the core properties C01-C05, C07, C08, C11.

Per design: generate (designgen) -> build with the REAL code (interp, extract) -> simulate in
pysim (simcore) -> property monitor of `pid` on the observations (monitors) -> the same
design and the sampled valuations go to the Lean driver `Driver/Core.lean`, whose answers are
compared line by line with what the real circuit did.
"""

from __future__ import annotations

import json
import multiprocessing as mp
import os
import random
import subprocess
import time
from concurrent.futures import ThreadPoolExecutor
from typing import Optional

from ..common import Check, InfraError, LEAN, CORPUS, run_cmd, first_diff
from . import designgen
from .analysis import Desc

DRIVER = "Core"

RULES = {
    "C01": "share of designs in which >= 2 transactions reach one exclusive method (shared) or one body calls it in several alternatives",
    "C02": "designs with >= 1 add_conflict relation (between transactions, methods, mixed; lifted through call trees)",
    "C03": "designs with disabled/conditional calls, validate_arguments, ready dependencies, nesting",
    "C04": "designs with multi-level call chains, nonexclusive methods, aliases, nested bodies",
    "C05": "designs with arguments (combiners) and results routed through provide aliases",
    "C07": "designs with conflicts of every source next to exclusive alternatives / nonexclusive ancestors / schedule_before",
    "C08": "designs with prioritised conflicts combined with other conflicts and schedule_before",
    "C11": "well-formed designs, designs with exactly one injected defect of each kind, accept families",
}

EMPHASIS = {
    "C01": {"share": 0.55, "p_same_in_alts": 0.7, "p_struct": 0.55, "p_mcall": 0.6, "p_nonexcl": 0.35, "n_conflict": (0, 1), "n_before": (0, 1)},
    "C02": {"n_conflict": (1, 3), "n_before": (0, 1), "share": 0.4, "p_wrap": 0.2},
    "C03": {"p_validate": 0.6, "p_enable": 0.55, "n_before": (0, 3), "p_rd": 0.7, "p_nest": 0.15, "p_ready_m": 0.85},
    "C04": {"p_mcall": 0.75, "p_nonexcl": 0.4, "n_alias": (1, 3), "p_nest": 0.15, "p_enable": 0.5},
    "C05": {"p_nonexcl": 0.4, "n_alias": (1, 3), "p_group": 0.5, "p_mcall": 0.6, "p_validate": 0.15},
    "C07": {"share": 0.5, "n_conflict": (0, 2), "n_before": (0, 2), "p_nonexcl": 0.35, "p_same_in_alts": 0.6, "p_ready_t": 0.5, "p_ready_m": 0.4},
    "C08": {"n_alias": (1, 2), "n_conflict": (1, 3), "n_before": (0, 2), "share": 0.5, "p_ready_t": 0.5, "p_ready_m": 0.3, "p_validate": 0.1},
    "C11": {},
}


# ------------------------------------------------------------------------------------ one design
def make_views(b, desc: Desc, obs) -> list:
    from .monitors import View

    name = b.name_of
    tnames = {i: name[i] for i in b.trans_ids}
    mnames = {i: name[i] for i in b.meth_ids}
    views = []
    for k, o in enumerate(obs):
        views.append(
            View(
                idx=k,
                inputs=o.inputs,
                ready={name[i]: o.ready[i] for i in range(len(o.ready))},
                run={name[i]: o.run[i] for i in range(len(o.run))},
                runnable={tnames[i]: o.runnable[i] for i in tnames},
                din={mnames[i]: o.din[i] for i in mnames},
                dout={mnames[i]: o.dout[i] for i in mnames},
                w={s: o.w[s] for s in range(len(o.w))},
                wa={s: o.wa[s] for s in range(len(o.wa))},
                res={s: o.res[s] for s in range(len(o.res))},
            )
        )
    return views


SETTLE_TIMEOUT_S = 20  # CPU seconds


class _Unsettled(Exception):
    pass


def _with_watchdog(seconds: int, fn, *args):
    """run `fn(*args)` under a watchdog on the *CPU time* of this process (ITIMER_VIRTUAL: independent of
    machine load).  A settling simulation needs well under a second of CPU; an oscillating one never ends."""
    import signal

    def onalarm(signum, frame):
        raise _Unsettled()

    try:
        old = signal.signal(signal.SIGVTALRM, onalarm)
    except ValueError:  # not in the main thread: no watchdog
        return fn(*args)
    signal.setitimer(signal.ITIMER_VIRTUAL, seconds)
    try:
        return fn(*args)
    finally:
        signal.setitimer(signal.ITIMER_VIRTUAL, 0)
        signal.signal(signal.SIGVTALRM, old)


def eval_design(design: dict, pid: str, n_random: int, only_vals: Optional[list] = None, max_patterns: Optional[int] = None) -> dict:
    """run the REAL code on one abstract design; returns lines for the Lean driver, the
    implementation's observation lines, the verdict of `pid`'s monitor and statistics.

    Anything that goes wrong while processing the REAL objects of the design (an exception, or an
    extraction that disagrees with the abstract design: missing/extra call sites or bodies, colliding
    TModule uids) is an observation about the code under test, never a harness error: it is recorded in
    `aux` (-> divergence of corr:core, followed by the failing-input search) and, as far as the circuit
    can still be simulated, the property monitor runs with the abstract design as ground truth."""
    desc = Desc(design)  # an exception here is a generator/harness problem (exit 2)
    out = {"lean_in": [], "impl_out": [], "reject": None, "reject_msg": "", "viol": None, "viol_val": None,
           "nvals": 0, "exhaustive": False, "names": {}, "aux": None}
    try:
        _eval_real(design, desc, pid, n_random, only_vals, max_patterns, out)
    except Exception as e:  # noqa: BLE001
        import traceback

        tb = traceback.extract_tb(e.__traceback__)
        where = f"{tb[-1].filename.split('/')[-1]}:{tb[-1].lineno}" if tb else "?"
        out["aux"] = f"processing the real objects of this design raised {type(e).__name__}: {str(e)[:200]} ({where})"
        out["lean_in"], out["impl_out"] = [], []
    return out


def _eval_real(design, desc, pid, n_random, only_vals, max_patterns, out):
    from . import extract, simcore
    from .monitors import MONITORS, mon_c11

    b = extract.build(design)
    out.update({"reject": b.reject, "reject_msg": b.reject_msg, "names": {str(k): v for k, v in b.name_of.items()}})
    consistent = not b.mismatch
    if consistent:
        out["lean_in"] = [json.dumps(b.flat, separators=(",", ":"))]
        out["impl_out"] = [b.summary]
        out["aux"] = _exclusivity_crosscheck(b, desc)
    else:  # the model cannot be fed a design that does not correspond to the abstract one
        out["aux"] = "extraction disagrees with the abstract design: " + "; ".join(b.mismatch[:3])
    if pid == "C11":
        v = mon_c11(desc, b.reject, design.get("inject"))
        if v:
            out["viol"] = v
    if b.reject is not None:
        return
    widths = {n: len(s) for n, s in b.top.inputs.items()}
    if only_vals is not None:
        vals, exh = only_vals, False
    else:
        vals, exh = simcore.valuations(widths, random.Random(design.get("vseed", 0)), n_random, max_patterns)
    try:
        try:
            obs = _with_watchdog(SETTLE_TIMEOUT_S + len(vals) // 50, simcore.simulate, b, vals)
        except _Unsettled:  # once more with a much larger budget before calling it a loop
            obs = _with_watchdog(4 * SETTLE_TIMEOUT_S + len(vals) // 10, simcore.simulate, b, vals)
    except _Unsettled:
        # the real circuit does not settle: a combinational loop through run/ready signals.  The model
        # evaluates the same equations in one pass, so this is a divergence of corr:core (and C10's business).
        out["aux"] = f"pysim did not settle within {4 * SETTLE_TIMEOUT_S} CPU seconds: combinational loop in the generated logic?"
        return
    out["nvals"] = len(vals)
    out["exhaustive"] = exh
    impl_lines = [simcore.impl_line(b, o) for o in obs]
    if consistent:
        out["lean_in"] += [simcore.lean_line(o) for o in obs]
        out["impl_out"] += impl_lines
    out["any_run2"] = any(sum(o.run[t] for t in b.trans_ids) >= 2 for o in obs)
    out["blocked"] = any(any(o.runnable[t] and o.ready[t] and not o.run[t] for t in b.trans_ids) for o in obs)
    if pid in MONITORS:
        views = make_views(b, desc, obs)
        r = MONITORS[pid](desc, views)
        if r:
            out["viol"], k = r
            out["viol_val"] = vals[k]
            out["viol_obs"] = impl_lines[k]


def _exclusivity_crosscheck(b, desc: Desc) -> Optional[str]:
    """The monitors decide exclusivity from tree positions (analysis.diff_alts), the manager from
    `CtrlPath.exclusive_with` on the paths recorded by `CtrlPathBuilder`.  On every pair of call
    sites / body definitions of every generated design the two must coincide (this ties the
    independent notion of the monitors to the real code; a mismatch is reported as a divergence of
    the correspondence `corr:ctrl-positions`)."""
    from .analysis import diff_alts

    sites = b.top.sites
    ids = sorted(sites)
    for i, x in enumerate(ids):
        px = sites[x].call_tuple[0]
        for y in ids[i + 1 :]:
            real = px.exclusive_with(sites[y].call_tuple[0])
            if real != diff_alts(desc.sites[x].pos, desc.sites[y].pos):
                return f"call sites {x},{y}: exclusive_with={real} but tree positions say {not real} ({px} / {sites[y].call_tuple[0]})"
    names = sorted(n for n in b.top.bodies if n in desc.bodies)
    for i, x in enumerate(names):
        for y in names[i + 1 :]:
            real = b.top.bodies[x].ctrl_path.exclusive_with(b.top.bodies[y].ctrl_path)
            if real != diff_alts(desc.bodies[x].pos, desc.bodies[y].pos):
                return f"bodies {x},{y}: exclusive_with={real} but tree positions say {not real}"
    return None


def gen_for(pid: str, index: int, seed: int, tier: str) -> dict:
    """the `index`-th design of the stream of property `pid` (deterministic in (pid, seed, index))"""
    rng = random.Random(f"{pid}/{seed}/{index}")
    P = dict(EMPHASIS.get(pid, {}))
    if tier == "thorough" and index % 5 == 4:
        P.update({"n_trans": (3, 7), "n_meth": (3, 8), "max_depth": 3, "max_chains": 300})
    IK, AK = designgen.INJECT_KINDS, designgen.ACCEPT_KINDS
    r = index % 12
    q = index // 12
    if pid == "C11":
        if r < len(IK):
            d = designgen.gen_injected(rng, P, IK[r])
        elif r == 10 or q % 2:
            d = designgen.gen_accept_case(rng, P, AK[(q * 2 + r) % len(AK)])
        else:
            d = designgen.gen_valid(rng, P)
    else:
        # ordinary designs, plus (for every property) the accept families and the injected-defect stream:
        # on the unchanged tree an injected design is rejected (a cheap observation); if it unexpectedly
        # elaborates it is simulated and `pid`'s monitor decides with a concrete valuation.
        acc9 = {"C01": ["alias_alts", "nonexcl_alts", "cross_module"], "C02": ["same_trans_excl", "cross_module"]}
        special = {"C01": ["aliasDouble", "nonexclTwice", "doubleCall"], "C02": ["sameTransMixed", "sameTransConflict"],
                   "C08": ["sameTransMixed"]}.get(pid)
        if r == 8 and pid == "C08":
            d = designgen.gen_accept_case(rng, P, "same_trans_excl")
        elif r == 8 and special:
            d = designgen.gen_injected(rng, P, special[q % len(special)])
        elif r == 9 and special:
            d = designgen.gen_accept_case(rng, P, acc9[pid][q % len(acc9[pid])] if pid in acc9 else "same_trans_excl")
        elif r == 10:
            d = designgen.gen_accept_case(rng, P, AK[q % len(AK)])
        elif r == 11:
            d = designgen.gen_injected(rng, P, IK[q % len(IK)])
        else:
            d = designgen.gen_valid(rng, P)
    d["id"] = f"{pid}/{seed}/{index}"
    return d


def _work(args):
    pid, index, seed, tier, n_random = args
    t0 = time.time()
    d = gen_for(pid, index, seed, tier)
    t1 = time.time()
    try:
        r = eval_design(d, pid, n_random, max_patterns=(8 if tier == "quick" else 24))
    except Exception as e:  # noqa: BLE001
        import traceback

        r = {"error": f"{type(e).__name__}: {e}", "trace": traceback.format_exc()[-1500:]}
    r["design"] = d
    r["stats"] = designgen.stats(d)
    r["t_gen"] = t1 - t0
    r["t_eval"] = time.time() - t1
    return r


# ------------------------------------------------------------------------------------ Lean side
def lean_outputs(ctx: Check, batches: list[list[str]], procs: int) -> list[list[str]]:
    if procs <= 1 or len(batches) < 8:
        flat = [l for b in batches for l in b]
        out = _lean_batch_retry(ctx, flat)
        res, pos = [], 0
        for b in batches:
            res.append(out[pos : pos + len(b)])
            pos += len(b)
        return res
    chunks = [batches[i::procs] for i in range(procs)]

    def run(chunk):
        flat = [l for b in chunk for l in b]
        return _lean_batch_retry(ctx, flat) if flat else []

    with ThreadPoolExecutor(procs) as ex:
        outs = list(ex.map(run, chunks))
    res: list = [None] * len(batches)
    for ci, chunk in enumerate(chunks):
        pos = 0
        for j, b in enumerate(chunk):
            res[ci + j * procs] = outs[ci][pos : pos + len(b)]
            pos += len(b)
    return res


class LeanStream:
    """`k` Lean driver processes started up front; designs are written to their stdin as soon as the
    real code has produced them, so the (seconds long) start-up of `lean --run` and the model's work
    overlap with elaboration/pysim of the remaining designs."""

    def __init__(self, k: int):
        import threading

        self.k = max(1, k)
        self.procs = []
        self.outbuf: list[list[str]] = []
        self.errbuf: list[list[str]] = []
        self.threads = []
        self.fed: list[list[int]] = [[] for _ in range(self.k)]  # per process: number of lines per design
        self.n = 0
        for i in range(self.k):
            pr = subprocess.Popen(["lake", "env", "lean", "--run", f"Driver/{DRIVER}.lean"], cwd=LEAN, stdin=subprocess.PIPE,
                                  stdout=subprocess.PIPE, stderr=subprocess.PIPE, text=True, bufsize=1 << 16)
            self.procs.append(pr)
            ob: list[str] = []
            eb: list[str] = []
            self.outbuf.append(ob)
            self.errbuf.append(eb)
            for stream, buf in ((pr.stdout, ob), (pr.stderr, eb)):
                th = threading.Thread(target=lambda s=stream, b=buf: b.extend(s.read().split("\n")), daemon=True)
                th.start()
                self.threads.append(th)

    def feed(self, lines: list[str]):
        i = self.n % self.k
        self.n += 1
        self.fed[i].append(len(lines))
        if not lines:
            return
        try:
            self.procs[i].stdin.write("\n".join(lines) + "\n")
        except (BrokenPipeError, OSError):
            pass  # reported by finish()

    def finish(self) -> Optional[list[list[str]]]:
        """outputs per design in feeding order, or None if a driver process failed (caller falls back)"""
        for pr in self.procs:
            try:
                pr.stdin.close()
            except (BrokenPipeError, OSError):
                pass
        for pr in self.procs:
            pr.wait()
        for th in self.threads:
            th.join()
        per: list[list[list[str]]] = []
        for i, pr in enumerate(self.procs):
            out = self.outbuf[i]
            if out and out[-1] == "":
                out.pop()
            if pr.returncode != 0 or len(out) != sum(self.fed[i]):
                self.error = "\n".join(self.errbuf[i])[-2000:] + "\n".join(out[-3:])
                return None
            pos, chunks = 0, []
            for ln in self.fed[i]:
                chunks.append(out[pos : pos + ln])
                pos += ln
            per.append(chunks)
        return [per[j % self.k][j // self.k] for j in range(self.n)]

    def kill(self):
        for pr in self.procs:
            try:
                pr.kill()
            except OSError:
                pass


def build_models(ctx: Check, tries: int = 3):
    """the driver imports the compiled model (TxV.Model.CoreProto) and the theory bridge (TxV.Core.Bridge)"""
    for k in range(tries):
        res = run_cmd(["lake", "build", "TxV.Model.CoreProto", "TxV.Core.Bridge", "TxV.Core.BridgeEagerFold"], LEAN, timeout=3000)
        if res.returncode == 0:
            return
        time.sleep(3)  # another agent may be rebuilding shared modules: transient
    raise InfraError("Lean build of the core model failed:\n" + (res.stdout + res.stderr)[-3000:])


def _lean_batch_retry(ctx: Check, lines: list[str], tries: int = 3) -> list[str]:
    for k in range(tries):
        try:
            return ctx.lean_batch(DRIVER, lines)
        except InfraError as e:
            if k == tries - 1 or "does not exist" not in str(e):
                raise
            time.sleep(2)
            build_models(ctx)
    return []


# ------------------------------------------------------------------------------------ findings
def _leaf(ref):
    return {"k": "method", "ref": ref, "ready": None, "nonexclusive": 0, "combiner": None, "single_caller": 0,
            "validate": None, "out": ["const", 0], "loc": None, "sugar": 0, "block": []}


def _mcall(site, ref):
    return {"k": "call", "site": site, "ref": ref, "enable": None, "arg": None, "kw": 0, "via_group": 0}


def witness_designs(kind: str) -> list[dict]:
    """named witnesses of known findings (known_findings.txt refers to them by `kind`)"""
    if kind == "same_transaction_conflict":  # F1: one transaction calls m1 and m2, m1.add_conflict(m2)
        out = []
        for prio in ("U", "L", "R"):
            out.append({
                "inputs": {"r0": 1},
                "methods": [{"ref": "m1", "iw": 0, "ow": 0, "owner": 0, "group": None}, {"ref": "m2", "iw": 0, "ow": 0, "owner": 0, "group": None}],
                "groups": [],
                "modules": [{"name": "mod0", "block": [_leaf("m1"), _leaf("m2"),
                             {"k": "trans", "name": "t0", "ready": "r0", "block": [_mcall(0, "m1"), _mcall(1, "m2")]}]}],
                "relations": [{"k": "conflict", "a": "m1", "b": "m2", "prio": prio}],
                "nsites": 2, "tag": "witness", "inject": None, "vseed": 1,
            })
        return out
    if kind == "alias_relation":  # F-core1-1: relation declared ON a provide()-alias
        out = []
        for rel in ({"k": "conflict", "a": "al", "b": "m1", "prio": "U"}, {"k": "conflict", "a": "al", "b": "t1", "prio": "L"}):
            out.append({
                "inputs": {"r0": 1, "r1": 1},
                "methods": [{"ref": r, "iw": 0, "ow": 0, "owner": 0, "group": None} for r in ("m0", "m1", "al")],
                "groups": [],
                "modules": [{"name": "mod0", "block": [_leaf("m0"), _leaf("m1"), {"k": "provide", "ref": "al", "target": "m0"},
                             {"k": "trans", "name": "t0", "ready": "r0", "block": [_mcall(0, "al")]},
                             {"k": "trans", "name": "t1", "ready": "r1", "block": [_mcall(1, "m1")]}]}],
                "relations": [rel],
                "nsites": 2, "tag": "witness", "inject": None, "vseed": 1,
            })
        return out
    raise KeyError(f"unknown witness kind {kind}")


def replay_witness_for(pid: str):
    def replay(w: dict) -> Optional[str]:
        designs = [w["design"]] if "design" in w else witness_designs(w["kind"])
        for d in designs:
            r = eval_design(d, pid, int(w.get("n_random", 24)), only_vals=w.get("valuations"))
            if r.get("viol"):
                return r["viol"]
        return None

    return replay


# ------------------------------------------------------------------------------------ main entry
def run_core(ctx: Check, pid: str, n_quick: int = 110, n_thorough: int = 1600):
    ctx.rule = "cases = (abstract design, input valuation); non-trivial = " + RULES[pid]
    props = LEAN / "TxV" / "Props" / f"{pid}.lean"
    tm0 = time.time()
    if props.exists():
        for k in range(4):
            try:
                # theorems deriving the static hypotheses of the Props theorems from the executable `elaborate`
                # and (BridgeEval) stating the property conclusions about the executable `evalEager` run bits
                extra = []
                if pid in ("C01", "C02", "C05", "C07", "C08", "C11") and (LEAN / "TxV/Core/BridgeC01.lean").exists():
                    extra.append("TxV.Core.BridgeC01")
                if pid in ("C01", "C02", "C03", "C04", "C05", "C07", "C08") and (LEAN / "TxV/Core/BridgeEval.lean").exists():
                    extra.append("TxV.Core.BridgeEval")
                if pid in ("C01", "C02") and (LEAN / "TxV/Core/Placed.lean").exists():
                    extra.append("TxV.Core.Placed")
                ctx.proof_stage(extra_modules=extra)
                break
            except InfraError as e:
                # other agents build shared modules concurrently: lake's intermediate files can be
                # caught half-written ("failed to load header", "does not exist"); that is transient
                transient = any(x in str(e) for x in ("failed to load header", "does not exist", "unexpected end of input", "No such file"))
                if k == 3 or not transient:
                    raise
                time.sleep(5 + 5 * k)
    else:
        ctx.note(f"TxV/Props/{pid}.lean not present yet (written by the theory component): proof stage skipped")
    tm1 = time.time()
    build_models(ctx)
    tm2 = time.time()
    ctx.replay_findings(replay_witness_for(pid))
    ctx.assumptions.append(
        "modelled, not verified: Amaranth If/Switch/FSM semantics (enable_sig/ready are sampled from the real circuit "
        "and fed to the model; the driver checks the exclusivity hypothesis hExcl on every valuation)"
    )

    n = ctx.pick(n_quick, n_thorough)
    if os.environ.get("VERIF_CORE_N"):  # for experiments (mutation runs); not used by the normal check
        n = int(os.environ["VERIF_CORE_N"])
    n_random = ctx.pick(24, 48)
    procs = min(4, os.cpu_count() or 1) if ctx.quick else min(16, os.cpu_count() or 1)
    if os.environ.get("VERIF_PROCS"):
        procs = int(os.environ["VERIF_PROCS"])
    jobs = [(pid, i, ctx.seed, ctx.tier, n_random) for i in range(n)]
    results: list[dict] = []
    # corpus (minimised past failures / directed designs) first
    for cdir in (CORPUS / pid, CORPUS / "core"):
        if cdir.is_dir():
            for f in sorted(cdir.glob("*.json")):
                d = json.loads(f.read_text())
                d = d.get("design", d)
                r = eval_design(d, pid, n_random)
                r["design"], r["stats"], r["t_gen"], r["t_eval"] = d, designgen.stats(d), 0, 0
                r["design"].setdefault("tag", "corpus")
                results.append(r)
                ctx.count("cases_corpus")
    # directed designs: the minimal shape of every known breaking change of the core (directed.py), all valuations
    from .directed import directed

    for d in directed(pid):
        r = eval_design(d, pid, n_random)
        r["design"], r["stats"], r["t_gen"], r["t_eval"] = d, designgen.stats(d), 0, 0
        results.append(r)
        ctx.count("cases_directed")
    # The Lean driver processes are started now and fed while the real code is still being run.
    lean_procs = 1 if ctx.quick else procs
    stream = LeanStream(lean_procs)
    try:
        for r in results:  # corpus
            stream.feed(r["lean_in"])
        if procs > 1:
            with mp.get_context("fork").Pool(procs) as pool:
                for r in pool.imap(_work, jobs, chunksize=max(1, min(8, n // (procs * 8)))):
                    results.append(r)
                    if "error" not in r:
                        stream.feed(r["lean_in"])
        else:
            for j in jobs:
                r = _work(j)
                results.append(r)
                if "error" not in r:
                    stream.feed(r["lean_in"])
    except BaseException:
        stream.kill()
        raise

    tm3 = time.time()
    errors = [r for r in results if "error" in r]
    if errors:
        stream.kill()
        raise InfraError(f"harness error on design {errors[0]['design'].get('id')}: {errors[0]['error']}\n{errors[0]['trace']}")

    # ---- monitor verdicts
    fails = []
    for r in results:
        if r["viol"]:
            if ctx.is_known(_descriptor(pid, r["design"])):
                ctx.count("failures_covered_by_known_finding")
            else:
                fails.append(r)
    fails.sort(key=lambda r: len(json.dumps(r["design"])))
    for r in fails[:3]:
        ctx.violation(
            f"{r['viol']}",
            {"design": r["design"], "valuations": [r["viol_val"]] if r.get("viol_val") is not None else None,
             "impl_observation": r.get("viol_obs") or (r["impl_out"] or [r.get("aux")])[0], "names": r["names"]},
        )
    if fails:
        ctx.count("monitor_failures", len(fails))

    # ---- Lean model on the same designs / valuations
    tm4 = time.time()
    outs = stream.finish()
    if outs is None:  # a driver process failed (e.g. a shared module was being rebuilt): one-shot fallback
        ctx.note("streaming Lean driver failed, falling back to batch mode: " + getattr(stream, "error", "")[-300:])
        build_models(ctx)
        outs = lean_outputs(ctx, [r["lean_in"] for r in results], lean_procs)
    tm5 = time.time()
    ctx.note(f"wall: proof stage {tm1 - tm0:.1f}s, model build {tm2 - tm1:.1f}s, real code (procs={procs}) {tm3 - tm2:.1f}s, "
             f"Lean driver ({sum(len(r['lean_in']) for r in results)} lines) {tm5 - tm4:.1f}s")
    ndiv = 0
    for r, mo in zip(results, outs):
        d = first_diff(r["impl_out"], mo)
        nt = _nontrivial(pid, r)
        ctx.case(json.dumps(r["design"], sort_keys=True), nontrivial=nt, n=max(1, r["nvals"]))
        _count(ctx, r)
        if len(ctx.samples) < 3 and r["nvals"] and r["impl_out"]:
            ctx.sample({"design_id": r["design"].get("id"), "tag": r["design"].get("tag"), "summary": r["impl_out"][0],
                        "valuation_lines": r["lean_in"][1:4], "impl": r["impl_out"][1:4]})
        if d is None and r.get("aux"):
            d = 0
            mo = [f"corr:ctrl-positions: {r['aux']}"]
        if d is None:
            ctx.traces_validated += 1
            continue
        ndiv += 1
        ctx.count("divergences")
        if ndiv > 2 or fails:
            continue  # a monitor failure with a concrete input is already reported
        detail = {
            "design": r["design"],
            "line_index": d,
            "input_line": r["lean_in"][d][:400] if d < len(r["lean_in"]) else None,
            "impl": r["impl_out"][d] if d < len(r["impl_out"]) else None,
            "model": mo[d] if d < len(mo) else None,
            "names": r["names"],
        }

        def search(r=r):
            # more valuations on the diverging design, then more designs of the same stream
            t_end = time.time() + ctx.pick(45, 300)  # the search is bounded in time
            rr = eval_design(r["design"], pid, 400)
            if rr["viol"]:
                return rr["viol"], {"design": r["design"], "valuations": [rr.get("viol_val")], "impl_observation": rr.get("viol_obs")}
            extra = [(pid, i, ctx.seed, ctx.tier, n_random) for i in range(n, n + ctx.pick(150, 600))]
            with mp.get_context("fork").Pool(procs) as pool:
                for w in pool.imap_unordered(_work, extra, chunksize=2):
                    ctx.count("search_cases")
                    if w.get("viol"):
                        return w["viol"], {"design": w["design"], "valuations": [w.get("viol_val")], "impl_observation": w.get("viol_obs")}
                    if time.time() > t_end:
                        break
            return None

        ctx.divergence("corr:core", detail, search)
    ctx.exhaustive = False
    tg = sum(r["t_gen"] for r in results)
    te = sum(r["t_eval"] for r in results)
    ctx.note(f"{len(results)} designs: generation {tg:.1f}s, real elaboration+pysim+monitor {te:.1f}s (summed over workers)")


def _descriptor(pid: str, design: dict) -> dict:
    """canonical descriptor of a failing case for known-findings matching"""
    defined = set()

    def walk(block):
        for s in block:
            if s["k"] == "method":
                defined.add(s["ref"])
            for key in ("alts", "cases", "states"):
                for a in s.get(key, []):
                    walk(a["block"])
            if s["k"] in ("method", "trans"):
                walk(s["block"])

    for mod in design["modules"]:
        walk(mod["block"])
    mrefs = {m["ref"] for m in design["methods"]}
    return {
        "property": pid,
        "relation_source_is_alias": any(r["a"] in mrefs and r["a"] not in defined for r in design["relations"]),
    }


def _nontrivial(pid: str, r: dict) -> bool:
    s = r["stats"]
    if pid == "C11":
        return True
    if r["reject"] is not None:
        return False
    return {
        "C01": s["shared_exclusive"] or s["exclusive_branch_calls"],
        "C02": any(x["k"] == "conflict" for x in r["design"]["relations"]),
        "C03": s["validate"] or s["nested"] or any(x["k"] == "before" and x.get("rd") for x in r["design"]["relations"]) or s["sites"] > 0,
        "C04": s["depth"] >= 2 or s["aliases"] or s["nested"],
        "C05": s["sites"] > 0,
        "C07": bool(r.get("blocked")),
        "C08": any(x["k"] == "conflict" and x["prio"] != "U" for x in r["design"]["relations"]),
    }[pid]


def _count(ctx: Check, r: dict):
    s = r["stats"]
    d = r["design"]
    ctx.count("designs")
    ctx.count(f"stream_{d.get('tag', '?').split(':')[0]}")
    if r["reject"] is not None:
        ctx.count(f"reject_{r['reject']}")
    else:
        ctx.count("accepted")
        ctx.count("valuations", r["nvals"])
        if r.get("exhaustive"):
            ctx.count("designs_all_valuations")
        if r.get("any_run2"):
            ctx.count("designs_with_2_transactions_running_together")
        if r.get("blocked"):
            ctx.count("designs_with_blocked_enabled_transaction")
    for k in ("shared_exclusive", "exclusive_branch_calls", "nonexclusive_ancestor", "nested", "aliases", "def_in_struct", "validate"):
        if s[k]:
            ctx.count(f"with_{k}")
    ctx.count(f"depth_{min(s['depth'], 4)}")
    ctx.count(f"bodies_{min(s['bodies'] // 3 * 3, 12)}+")
    if d.get("tag", "").startswith("accept"):
        ctx.count(f"accept_family_{d['tag'].split(':')[1]}")


def replay_core(ctx: Check, pid: str, body: dict) -> Optional[str]:
    design = body["design"] if "design" in body else body.get("divergence", {}).get("design")
    if design is None:
        return None
    vals = body.get("valuations")
    r = eval_design(design, pid, 64, only_vals=vals if vals and vals[0] is not None else None)
    if r.get("viol"):
        return r["viol"]
    if r.get("aux"):
        return "corr:core: " + r["aux"]
    # a replay of a pure divergence: compare with the model again
    build_models(ctx)
    out = _lean_batch_retry(ctx, r["lean_in"])
    d = first_diff(r["impl_out"], out)
    if d is not None:
        return f"model and implementation differ at line {d}: impl={r['impl_out'][d]} model={out[d]}"
    return None
