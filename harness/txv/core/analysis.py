"""Static description of an abstract design, computed from the design tree ONLY.

This is the "design description" the monitors and the generator use.  It is deliberately
independent of the Transactron code, of the extractor and of the Lean model: exclusivity is
decided from *tree positions* (which alternative of which control structure a statement sits
in), never from `CtrlPath` objects.

position of a statement = (module index, [(structure uid, alternative index), ...]) over the
enclosing If/Switch/FSM structures of the module (body boundaries add nothing: a body
definition inherits the conditions around it; the implicit `If(enable_call)` has a single
alternative and adds nothing).

Three notions of "two call chains cannot be active together" are provided:
  strict_excl  both chains share the same call sites up to some depth and then continue
               through two sites of the same body that sit in different alternatives of one
               structure            (implies the implementation's `call_paths_exclusive`)
  sem_excl     some site of one chain and some site of the other sit in different
               alternatives of one structure of one module
                                    (implied by the implementation's `call_paths_exclusive`)
so that   strict_excl  =>  implementation  =>  sem_excl.
Monitors use the strict one where they must not accuse the unchanged implementation of a
spurious conflict, and the semantic one where they must not accuse it of a missing one.
"""

from __future__ import annotations

from dataclasses import dataclass, field
from typing import Optional

Pos = tuple  # (module, ((uid, alt), ...))


@dataclass
class BodyD:
    name: str
    kind: str  # "t" | "m"
    module: int
    pos: Pos
    parent: Optional[str]  # enclosing body (nesting)
    stmt: dict
    def_index: int
    owner: object  # module index or None (top)
    sites: list = field(default_factory=list)  # site ids in statement order

    @property
    def nonexclusive(self) -> bool:
        return bool(self.stmt.get("nonexclusive"))


@dataclass
class SiteD:
    sid: int
    caller: str
    ref: str  # method reference used at the call (maybe an alias)
    callee: Optional[str]  # defined method after following provide chains (None: undefined)
    pos: Pos
    stmt: dict


def enable_value(stmt: dict, inputs: dict) -> int:
    """value of a call's `enable_call`: absent = 1, an input id = that input's value, or a constant
    written in the source as {"const": 0|1, "form": "C"|"int"|"bool"} (C(v), Python int, Python bool)"""
    e = stmt.get("enable")
    if e is None:
        return 1
    if isinstance(e, dict):
        return int(e["const"])
    return int(inputs.get(e, 0))


def diff_alts(p: Pos, q: Pos) -> bool:
    """different alternatives of one control structure of one module"""
    if p[0] != q[0]:
        return False
    for (u1, a1), (u2, a2) in zip(p[1], q[1]):
        if (u1, a1) == (u2, a2):
            continue
        return u1 == u2  # same structure, different alternative; different structures: parallel
    return False


class Desc:
    def __init__(self, design: dict):
        self.design = design
        self.bodies: dict[str, BodyD] = {}
        self.sites: dict[int, SiteD] = {}
        self.provide: dict[str, str] = {}
        self.mdesc = {m["ref"]: m for m in design["methods"]}
        self.order: list[str] = []
        self.structs: dict[int, dict] = {}
        for mi, mod in enumerate(design["modules"]):
            self._walk(mod["block"], mi, (), None)
        for s in self.sites.values():
            s.callee = self.resolve(s.ref)
        self.transactions = [b for b in self.order if self.bodies[b].kind == "t"]
        self.methods = [b for b in self.order if self.bodies[b].kind == "m"]
        self._chains_cache: dict[str, list] = {}

    # ------------------------------------------------------------------ tree walk
    def _walk(self, block, mi, pos, parent):
        for s in block:
            k = s["k"]
            if k == "if":
                self.structs[s["uid"]] = s
                for a, alt in enumerate(s["alts"]):
                    self._walk(alt["block"], mi, pos + ((s["uid"], a),), parent)
            elif k == "switch":
                self.structs[s["uid"]] = s
                for a, c in enumerate(s["cases"]):
                    self._walk(c["block"], mi, pos + ((s["uid"], a),), parent)
            elif k == "fsm":
                self.structs[s["uid"]] = s
                for a, st in enumerate(s["states"]):
                    self._walk(st["block"], mi, pos + ((s["uid"], a),), parent)
            elif k in ("trans", "method"):
                name = s["name"] if k == "trans" else s["ref"]
                owner = mi if k == "trans" else self.mdesc[name].get("owner")
                self.bodies[name] = BodyD(name, "t" if k == "trans" else "m", mi, (mi, pos), parent, s, len(self.order), owner)
                self.order.append(name)
                self._walk(s["block"], mi, pos, name)
            elif k == "call":
                self.sites[s["site"]] = SiteD(s["site"], parent, s["ref"], None, (mi, pos), s)
                if parent is not None:
                    self.bodies[parent].sites.append(s["site"])
            elif k == "provide":
                self.provide[s["ref"]] = s["target"]
            elif k == "provide_group":
                g = s["group"]
                members = sorted((m["group"][1], m["ref"]) for m in self.design["methods"] if m.get("group") and m["group"][0] == g)
                for (_, ref), tgt in zip(members, s["targets"]):
                    self.provide[ref] = tgt

    def resolve(self, ref: str) -> Optional[str]:
        seen = set()
        while ref not in self.bodies:
            if ref in seen or ref not in self.provide:
                return None
            seen.add(ref)
            ref = self.provide[ref]
        return ref if self.bodies[ref].kind == "m" else None

    def owner_of(self, name: str):
        if name in self.bodies and self.bodies[name].kind == "t":
            return self.bodies[name].owner
        return self.mdesc[name].get("owner")

    # ------------------------------------------------------------------ call graph
    def callees(self, body: str) -> list[str]:
        return [self.sites[s].callee for s in self.bodies[body].sites]

    def has_cycle(self) -> bool:
        color: dict[str, int] = {}

        def dfs(b):
            color[b] = 1
            for c in self.callees(b):
                if c is None:
                    continue
                if color.get(c) == 1:
                    return True
                if c not in color and dfs(c):
                    return True
            color[b] = 2
            return False

        return any(dfs(m) for m in self.methods if m not in color)

    def chains(self, root: str) -> list[tuple]:
        """all call chains (tuples of site ids) starting in body `root` (acyclic designs only)"""
        if root in self._chains_cache:
            return self._chains_cache[root]
        out = []

        def rec(body, prefix, seen):
            for sid in self.bodies[body].sites:
                c = self.sites[sid].callee
                if c is None or c in seen:
                    continue
                ch = prefix + (sid,)
                out.append(ch)
                rec(c, ch, seen | {c})

        rec(root, (), {root})
        self._chains_cache[root] = out
        return out

    def target(self, chain: tuple) -> str:
        return self.sites[chain[-1]].callee

    def chain_methods(self, chain: tuple) -> list[str]:
        return [self.sites[s].callee for s in chain]

    def tree_methods(self, root: str) -> list[str]:
        out: list[str] = []
        for ch in self.chains(root):
            t = self.target(ch)
            if t not in out:
                out.append(t)
        return out

    def trans_for(self, name: str) -> list[str]:
        """transactions that run `name` (a transaction name, a defined method or an alias)"""
        if name in self.bodies and self.bodies[name].kind == "t":
            return [name]
        m = self.resolve(name)
        return [t for t in self.transactions if m in self.tree_methods(t)]

    # ------------------------------------------------------------------ exclusivity of chains
    def strict_excl(self, c1: tuple, c2: tuple) -> bool:
        for a, b in zip(c1, c2):
            if a == b:
                continue
            return diff_alts(self.sites[a].pos, self.sites[b].pos)
        return False

    def sem_excl(self, c1: tuple, c2: tuple) -> bool:
        return any(diff_alts(self.sites[a].pos, self.sites[b].pos) for a in c1 for b in c2)

    def top_common_method(self, c1: tuple, c2: tuple) -> Optional[str]:
        """walking up from the (common) target: the last method both chains pass through consecutively"""
        top = None
        for a, b in zip(reversed(self.chain_methods(c1)), reversed(self.chain_methods(c2))):
            if a != b:
                break
            top = a
        return top

    def pair_ok(self, c1: tuple, c2: tuple, strict: bool) -> bool:
        """may two chains to the same method coexist without making their transactions conflict?"""
        top = self.top_common_method(c1, c2)
        if top is not None and self.bodies[top].nonexclusive:
            return True
        return self.strict_excl(c1, c2) if strict else self.sem_excl(c1, c2)

    def bodies_def_exclusive(self, t1: str, t2: str) -> bool:
        """`_transactions_exclusive`: some body needed by t1 and some body needed by t2 are defined in
        different alternatives of one structure (their `ready`s are never 1 together)"""
        b1 = [t1] + self.tree_methods(t1)
        b2 = [t2] + self.tree_methods(t2)
        return any(diff_alts(self.bodies[x].pos, self.bodies[y].pos) for x in b1 for y in b2)

    def implicit_conflict(self, t1: str, t2: str, strict_excuse: bool) -> bool:
        """share an exclusive method on call paths that are not excused.
        strict_excuse=True : only strict exclusivity excuses  -> superset of the implementation's edges
        strict_excuse=False: any semantic exclusivity excuses -> subset of the implementation's edges"""
        for x in self.tree_methods(t1):
            if self.bodies[x].nonexclusive or x not in self.tree_methods(t2):
                continue
            for c1 in self.chains(t1):
                if self.target(c1) != x:
                    continue
                for c2 in self.chains(t2):
                    if self.target(c2) == x and not self.pair_ok(c1, c2, strict_excuse):
                        return True
        return False

    def conflict_relations(self):
        return [r for r in self.design["relations"] if r["k"] == "conflict"]

    def explicit_conflict(self, t1: str, t2: str) -> bool:
        for r in self.conflict_relations():
            ta, tb = self.trans_for(r["a"]), self.trans_for(r["b"])
            if (t1 in ta and t2 in tb) or (t2 in ta and t1 in tb):
                return True
        return False

    def conflict_weak(self, t1: str, t2: str) -> bool:
        """superset of the implementation's conflict edges"""
        return t1 != t2 and (self.implicit_conflict(t1, t2, True) or self.explicit_conflict(t1, t2))

    def conflict_strong(self, t1: str, t2: str) -> bool:
        """subset of the implementation's conflict edges"""
        if t1 == t2:
            return False
        if self.implicit_conflict(t1, t2, False):
            return True
        return self.explicit_conflict(t1, t2) and not self._maybe_def_exclusive(t1, t2)

    def _maybe_def_exclusive(self, t1, t2) -> bool:
        return self.bodies_def_exclusive(t1, t2)

    # ------------------------------------------------------------------ ready dependencies
    def ready_deps(self, name: str) -> list[str]:
        """bodies whose `run` the body `name` needs: enclosing body, and sources of
        schedule_before(..., ready_dependent=True) ending in it"""
        out = []
        b = self.bodies[name]
        if b.parent is not None:
            out.append(b.parent)
        for r in self.design["relations"]:
            if r["k"] == "before" and r.get("rd"):
                dst = r["b"] if r["b"] in self.bodies and self.bodies[r["b"]].kind == "t" else self.resolve(r["b"])
                src = r["a"] if r["a"] in self.bodies and self.bodies[r["a"]].kind == "t" else self.resolve(r["a"])
                if dst == name and src is not None and src not in out:
                    out.append(src)
        return out

    # ------------------------------------------------------------------ priorities
    def priority_edges(self, conflicts_only: bool) -> list[tuple[str, str]]:
        """(a, b): transaction a must be ordered before b"""
        edges = []
        rels = list(self.design["relations"])
        for r in rels:
            if r["k"] == "conflict":
                if r["prio"] == "U":
                    continue
                hi, lo = (r["a"], r["b"]) if r["prio"] == "L" else (r["b"], r["a"])
                same_skip = True
            elif r["k"] == "before":
                if conflicts_only:
                    continue
                hi, lo = r["a"], r["b"]
                same_skip = False
            else:
                continue
            for x in self.trans_for(hi):
                for y in self.trans_for(lo):
                    if x == y and same_skip:
                        continue
                    edges.append((x, y))
        if not conflicts_only:
            for b in self.bodies.values():
                if b.parent is not None:
                    for x in self.trans_for(b.parent):
                        for y in self.trans_for(b.name):
                            edges.append((x, y))
        return edges

    @staticmethod
    def cyclic(nodes: list[str], edges: list[tuple[str, str]]) -> bool:
        rest = set(nodes)
        while rest:
            free = {n for n in rest if not any(b == n and a in rest for a, b in edges)}
            if not free:
                return True
            rest -= free
        return False


# ---------------------------------------------------------------------- C11 classification
def classify(desc: Desc) -> dict:
    """Which verdict does the property C11 demand for this design?

    returns {"must": "accept" | "reject" | None, "kinds": set of reject kinds that would be
    legitimate, "definite": set of kinds the property definitely demands, "why": [...]}

    "must" = "reject" when at least one *listed* defect is definitely present,
    "accept" when none of the listed defects is present even under the most conservative
    reading and no grey-zone condition holds, None (grey) otherwise.
    """
    definite: set[str] = set()
    grey: set[str] = set()
    why: list[str] = []
    d = desc
    if any(s.callee is None for s in d.sites.values()):
        return {"must": None, "kinds": {"other"}, "definite": set(), "why": ["undefined method called"]}
    if d.has_cycle():
        definite.add("cycle")
        why.append("a method reaches itself")
        # chains are not well defined any more; the only other kind that can come first is doubleCall
        return {"must": "reject", "kinds": {"cycle", "doubleCall"}, "definite": definite, "why": why}

    # --- double calls
    for root in d.order:
        chs = d.chains(root)
        for i, c1 in enumerate(chs):
            x = d.target(c1)
            if d.bodies[x].nonexclusive:
                continue
            for c2 in chs[i + 1 :]:
                if d.target(c2) != x:
                    continue
                if not d.sem_excl(c1, c2):
                    if d.bodies[root].kind == "t":
                        definite.add("doubleCall")
                        why.append(f"{root} reaches exclusive {x} twice on non-exclusive paths {c1} {c2}")
                    else:
                        grey.add("doubleCall")
                elif not d.strict_excl(c1, c2):
                    grey.add("doubleCall")

    # --- relations
    for r in d.design["relations"]:
        if r["k"] == "before":
            a = r["a"] if r["a"] in d.bodies else d.resolve(r["a"])
            b = r["b"] if r["b"] in d.bodies else d.resolve(r["b"])
            if d.bodies[b].def_index < d.bodies[a].def_index and d.owner_of(r["a"]) == d.owner_of(r["b"]):
                grey.add("schedBeforeDefinedAfter")
            if set(d.trans_for(r["a"])) & set(d.trans_for(r["b"])):
                grey.add("unsatPriority")  # self loop in the priority graph
        if r["k"] == "conflict":
            ta, tb = d.trans_for(r["a"]), d.trans_for(r["b"])
            for t in set(ta) & set(tb):
                a = r["a"] if r["a"] in d.bodies and d.bodies[r["a"]].kind == "t" else d.resolve(r["a"])
                b = r["b"] if r["b"] in d.bodies and d.bodies[r["b"]].kind == "t" else d.resolve(r["b"])
                if a == t or b == t:
                    definite.add("sameTransConflict")
                    why.append(f"{t} conflicts with a method it calls")
                    continue
                ca = [c for c in d.chains(t) if d.target(c) == a]
                cb = [c for c in d.chains(t) if d.target(c) == b]
                if any(not d.sem_excl(x, y) for x in ca for y in cb):
                    definite.add("sameTransConflict")
                    why.append(f"{t} runs both ends of a conflict")
                elif any(not d.strict_excl(x, y) for x in ca for y in cb):
                    grey.add("sameTransConflict")
    # nesting: a transaction running both a body and something nested in it -> self loop
    for b in d.bodies.values():
        if b.parent is not None and set(d.trans_for(b.parent)) & set(d.trans_for(b.name)):
            grey.add("unsatPriority")

    # --- priorities
    if Desc.cyclic(d.transactions, d.priority_edges(True)):
        definite.add("unsatPriority")
        why.append("conflict priorities are cyclic")
    elif Desc.cyclic(d.transactions, d.priority_edges(False)):
        grey.add("unsatPriority")

    # --- single caller
    for m in d.methods:
        if d.bodies[m].stmt.get("single_caller"):
            sites = [s for s in d.sites.values() if s.callee == m]
            direct_t = {s.caller for s in sites if s.caller is not None and d.bodies[s.caller].kind == "t"}
            reached = d.trans_for(m)
            if len(direct_t) >= 2:
                definite.add("singleCaller")
                why.append(f"single_caller {m} called from transactions {sorted(direct_t)}")
            elif len(sites) >= 2 and reached:
                grey.add("singleCaller")
            elif len(reached) >= 2:
                grey.add("singleCallerIndirect")  # accepted by the code; sentence arguably wants a reject

    # --- ready dependency on a conflicting transaction
    for t in d.transactions:
        for dep in d.ready_deps(t):
            if d.bodies[dep].kind != "t":
                continue
            if d.conflict_strong(t, dep):
                definite.add("readyDepConflict")
                why.append(f"{t} is ready-dependent on {dep} and conflicts with it")
            elif d.conflict_weak(t, dep):
                grey.add("readyDepConflict")

    kinds = definite | {g for g in grey if g != "singleCallerIndirect"}
    if definite:
        return {"must": "reject", "kinds": kinds, "definite": definite, "why": why}
    if grey:
        return {"must": None, "kinds": kinds, "definite": definite, "why": sorted(grey)}
    return {"must": "accept", "kinds": set(), "definite": set(), "why": []}
