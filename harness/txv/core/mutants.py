"""Mutation table used to validate the core checks (C01-C05, C07, C08, C11).  NOT used by `./check`.

usage (never touches /repo: the package is copied and shadowed through PYTHONPATH, AGENT_GUIDE rule 1):
    /venv/bin/python -m txv.core.mutants <mutant> C01,C07        # from /verif/harness, prints one line per check

M* mutants break a property and must be reported with a concrete failing design+valuation by the listed
property's check; N* (and M24: `transaction.ready &` is redundant because `runnable` already contains the
transaction's own `ready`) are semantics-preserving and must stay silent.
"""
import os
import shutil
import subprocess
import sys

MUTS = {
 "M1_calls_nonexclusive_not": ("core/manager.py", "if transaction1 is not transaction2 and not calls_nonexclusive(transaction1, transaction2, method):", "if transaction1 is not transaction2 and calls_nonexclusive(transaction1, transaction2, method):"),
 "M2_no_par_test": ("core/tmodule.py", "            elif a.par != b.par:\n                return False\n", ""),
 "M3_range_k_minus_1": ("core/schedulers.py", "conflicts = [ccl[j].run for j in range(k) if ccl[j] in gr[transaction]]", "conflicts = [ccl[j].run for j in range(k - 1) if ccl[j] in gr[transaction]]"),
 "M4_negate_sort_key": ("core/schedulers.py", "ccl.sort(key=lambda transaction: porder[transaction])", "ccl.sort(key=lambda transaction: -porder[transaction])"),
 "M5_drop_ready_of_disabled": ("core/manager.py", "                body.ready & Cat(dep.run for dep in ready_dependencies[body]).all()\n                for body in method_map.ready_for_transaction(transaction)\n",
     "                ((body.ready | ~Cat(call.enable for call in method_map.info_by_call[(transaction, body)]).any()) if body is not transaction else body.ready) & Cat(dep.run for dep in ready_dependencies[body]).all()\n                for body in method_map.ready_for_transaction(transaction)\n"),
 "M6_wrong_enable_chain": ("core/manager.py", "new_call_enable = call_enable & enable_sig", "new_call_enable = enable_sig"),
 "M7_swap_left_right": ("core/manager.py", "                case Priority.LEFT:\n                    pgr[end].add(begin)\n                case Priority.RIGHT:\n                    pgr[begin].add(end)", "                case Priority.LEFT:\n                    pgr[begin].add(end)\n                case Priority.RIGHT:\n                    pgr[end].add(begin)"),
 "M8_exclusive_exemption_inverted": ("core/manager.py", "conflict = relation.conflict and not TransactionManager._transactions_exclusive(", "conflict = relation.conflict and TransactionManager._transactions_exclusive("),
 "M9_no_lifting_of_end": ("core/manager.py", "                for trans_end in method_map.transactions_for(end):\n                    if relation.conflict and trans_start is trans_end:", "                for trans_end in list(method_map.transactions_for(end))[:1]:\n                    if relation.conflict and trans_start is trans_end:"),
 "M10_drop_validate_terms": ("core/manager.py", "                if method.validate_arguments is not None\n            )", "                if method.validate_arguments is not None and False\n            )"),
 "M11_drop_ready_deps": ("core/manager.py", "body.ready & Cat(dep.run for dep in ready_dependencies[body]).all()", "body.ready"),
 "M12_method_run_all": ("core/manager.py", "m.d.comb += method.run.eq(granted.any())", "m.d.comb += method.run.eq(granted.all())"),
 "M13_runs_drop_enable": ("core/manager.py", "runs[method._body].append(source.run & enable)", "runs[method._body].append(source.run)"),
 "M14_provided_dataout_unwired": ("core/manager.py", "            m.d.comb += method.data_out.eq(method._body.data_out)\n", ""),
 "M15_lcp_first_instead_of_last": ("core/manager.py", "common_ancestors[-1].nonexclusive or call_paths_exclusive", "common_ancestors[0].nonexclusive or call_paths_exclusive"),
 "M16_cpe_prefix_true": ("core/manager.py", "    if common_prefix_len == len(path1) or common_prefix_len == len(path2):\n        return False", "    if common_prefix_len == len(path1) or common_prefix_len == len(path2):\n        return True"),
 "M17_single_caller_gt2": ("core/manager.py", "if method.single_caller and len(method_args[method]) > 1:", "if method.single_caller and len(method_args[method]) > 2:"),
 "M18_no_readydep_conflict_check": ("core/manager.py", "                if dep in cgr[transaction]:\n                    raise RuntimeError(", "                if False and dep in cgr[transaction]:\n                    raise RuntimeError("),
 "M19_doublecall_check_dropped": ("core/manager.py", "if not method.nonexclusive and not call_paths_exclusive(old_call_path, new_call_path):", "if False and not method.nonexclusive and not call_paths_exclusive(old_call_path, new_call_path):"),
 "M20_elif_alt_not_incremented": ("core/tmodule.py", "self.ctrl_path.append(replace(self.previous, alt=self.previous.alt + 1))", "self.ctrl_path.append(replace(self.previous, alt=self.previous.alt))"),
 "M21_arg_mux_wrong_order": ("core/body.py", "return OneHotMux.create(m, [(runs[i], args[i]) for i in range(len(args))])", "return OneHotMux.create(m, [(runs[i], args[len(args) - 1 - i]) for i in range(len(args))])"),
 "M22_same_trans_conflict_check_dropped": ("core/manager.py", "                        if not calls_exclusive_within(trans_start, start, end):", "                        if False and not calls_exclusive_within(trans_start, start, end):"),
 "M23_cycle_reported_never": ("core/manager.py", "                        if method in ancestors:\n                            report_cycle(method, new_ancestors)", "                        if method in ancestors:\n                            continue"),
 "M24_eager_ignores_ready": ("core/schedulers.py", "m.d.comb += transaction.run.eq(transaction.ready & transaction.runnable & noconflict)", "m.d.comb += transaction.run.eq(transaction.runnable & noconflict)"),
 "N1_preserving_topo_key_negated": ("core/manager.py", "key=lambda t: len(cgr[t])", "key=lambda t: -len(cgr[t])"),
 "N2_preserving_ccl_sorted_twice": ("core/schedulers.py", "    ccl = list(cc)\n", "    ccl = sorted(list(cc), key=lambda t: -porder[t])\n"),
}
def make(name):
    dst = f"/tmp/mut_core_{os.getpid()}/{name}"
    if os.path.exists(dst): shutil.rmtree(dst)
    os.makedirs(dst)
    shutil.copytree("/repo/transactron", dst + "/transactron", ignore=shutil.ignore_patterns("__pycache__"))
    f, old, new = MUTS[name]
    p = dst + "/transactron/" + f
    s = open(p).read()
    assert s.count(old) == 1, (name, s.count(old))
    open(p, "w").write(s.replace(old, new))
    return dst
if __name__ == "__main__":
    name = sys.argv[1]; pids = sys.argv[2].split(",")
    dst = make(name)
    env = dict(os.environ, PYTHONPATH=dst, VERIF_CORE_N=os.environ.get("VERIF_CORE_N","110"))
    for pid in pids:
        r = subprocess.run(["./check", pid], cwd="/verif", env=env, capture_output=True, text=True)
        lines = [l for l in (r.stdout + r.stderr).splitlines() if "conda" not in l]
        v = [l for l in lines if l.startswith("VIOLATION")]
        nf = sum("no-failing-input-found" in l for l in v)
        first = next((lines[i+1].strip()[:230] for i,l in enumerate(lines) if l.startswith("VIOLATION") and i+1 < len(lines)), "")
        print(f"{name:38s} {pid} exit={r.returncode} violations={len(v)} no_input={nf} :: {first}", flush=True)
        if r.returncode == 2: print("\n".join(lines[-15:]))
    shutil.rmtree(dst)
