"""C10 helper: designs with run-dependent readiness, built directly on the REAL Transactron API.

Three things live here (all used only by `props/c10.py`):

1. a small design language (`spec`, JSON-able) with the features `designgen` lacks and C10 names:
   Forwarder-style readiness (`ready = local | run(other)` with `other.schedule_before(self)`),
   nested bodies (readiness of the nested body may read the run of the enclosing one),
   `condition()` blocks, methods defined by `provide`, and the library components
   Forwarder / Pipe / Connect / BasicFifo wired between generated transactions;
   `gen_positive` draws designs that obey the documented rule by construction,
   `gen_negative` draws designs that deliberately break it (detector check only);
2. `build(spec)`: interprets a spec (or a `designgen` design) with the real API, elaborates it
   with the real `TransactionManager` (default eager scheduler), and reads back from the real
   objects what the manager wired (post-merge bodies, call sites, relations, `cgr`, `porder`);
3. `netlist_edges(...)`: the *real* signal-dependency graph between the manager's signals
   (`ready`, `runnable`, `run`, `enable_sig`, `arg_rec`, `data_in`, `data_out` of every body / call
   site), computed on Amaranth's netlist exactly the way `Netlist.check_comb_cycles` walks it.

Node names (shared with `lean/Driver/C10.lean`):  `r<b>` ready, `n<t>` runnable, `u<b>` run,
`e<s>` call-site enable, `a<s>` call-site argument, `i<m>` data_in, `o<m>` data_out.
"""

from __future__ import annotations

import random
from typing import Any, Optional

from amaranth import *  # noqa: F403
from amaranth.hdl import Fragment, CombinationalCycle
from amaranth.hdl import _ir, _nir
from amaranth.hdl._ast import SignalDict

from transactron import Method, Transaction, TModule, Priority
from transactron.core.body import Body
from transactron.core.manager import TransactionManager, MethodMap
from transactron.core import schedulers as _schedulers
from transactron.lib.simultaneous import condition
from transactron.utils.dependencies import DependencyContext, DependencyManager

W = 3  # data width of generated methods


def _layout(w: int):
    return [("d", w)] if w > 0 else []


# ===================================================================================== interpreter
class LoopTop(Elaboratable):
    """spec -> real circuit.  Every free condition / local readiness / argument is a fresh input Signal."""

    def __init__(self, spec: dict):
        self.spec = spec
        self.methods: dict[str, Method] = {}
        self.transactions: dict[str, Transaction] = {}
        self.libs: dict[str, Any] = {}
        self.body_of: dict[str, Body] = {}  # user-defined bodies by name
        self.n_in = 0
        self.site_sig: dict[int, Any] = {}  # sid -> result of the call
        self.site_tuple: dict[int, tuple] = {}  # sid -> the (ctrl_path, arg_rec, enable_sig) tuple recorded by the real code
        for name, md in spec.get("methods", {}).items():
            self.methods[name] = Method(name=name, i=_layout(md["iw"]), o=_layout(md["ow"]))
        for lb in spec.get("libs", []):
            self.libs[lb["name"]] = self._make_lib(lb)
        for name in spec.get("trans", []):
            self.transactions[name] = Transaction(name=name)

    @staticmethod
    def _make_lib(lb):
        from transactron.lib import Forwarder, Pipe, Connect, BasicFifo

        lay = _layout(W)
        comp = lb["comp"]
        if comp == "Forwarder":
            return Forwarder(lay)
        if comp == "Pipe":
            return Pipe(lay)
        if comp == "Connect":
            return Connect(lay)
        if comp == "BasicFifo":
            return BasicFifo(lay, 2)
        raise ValueError(comp)

    # -- references -----------------------------------------------------------------------------
    def ref(self, name: str):
        """the Method / Transaction object called `name` (`f0.write` = method of a library component)"""
        if "." in name:
            lib, meth = name.split(".")
            return getattr(self.libs[lib], meth)
        if name in self.methods:
            return self.methods[name]
        return self.transactions[name]

    def inp(self, w: int = 1):
        self.n_in += 1
        return Signal(w, name=f"in{self.n_in}")

    def ready_of(self, r: Optional[dict]):
        if r is None:
            return C(1)
        terms = [self.ref(x).run for x in r.get("reads", [])]
        if r.get("loc"):
            terms.append(self.inp())
        if not terms:
            return C(1)
        acc = terms[0]
        for t in terms[1:]:
            acc = acc | t
        return acc

    # -- elaboration ----------------------------------------------------------------------------
    def elaborate(self, platform):
        m = TModule()
        for name, comp in self.libs.items():
            setattr(m.submodules, name, comp)
        for pv in self.spec.get("provides", []):
            self.methods[pv["alias"]].provide(self.ref(pv["target"]))
        # relations declared up front (like Forwarder.elaborate does)
        for r in self.spec.get("rels", []):
            a, b = self.ref(r["a"]), self.ref(r["b"])
            if r["k"] == "before":
                a.schedule_before(b, ready_dependent=bool(r.get("rd")))
            else:
                a.add_conflict(b, {"U": Priority.UNDEFINED, "L": Priority.LEFT, "R": Priority.RIGHT}[r["prio"]])
        self.block(m, self.spec["items"], None)
        return m

    def block(self, m, stmts, din):
        for s in stmts:
            getattr(self, "s_" + s["k"])(m, s, din)

    def s_trans(self, m, s, din):
        t = self.transactions[s["name"]]
        with t.body(m, ready=self.ready_of(s.get("ready"))):
            self.body_of[s["name"]] = Body.get()
            self.block(m, s["body"], None)

    def s_method(self, m, s, din):
        meth = self.methods[s["name"]]
        md = self.spec["methods"][s["name"]]
        kw: dict = {}
        if s.get("nonexcl"):
            kw["nonexclusive"] = True
            if md["iw"] > 0:
                kw["combiner"] = _or_combiner
        if s.get("validate"):
            kw["validate_arguments"] = lambda d: d != 5
        out = Signal(from_layout(md["ow"]), name=f"out_{s['name']}") if md["ow"] > 0 else None
        with meth.body(m, ready=self.ready_of(s.get("ready")), out=(out if out is not None else C(0, 0)), **kw) as arg:
            self.body_of[s["name"]] = Body.get()
            self.block(m, s["body"], arg)
            if out is not None:
                m.d.av_comb += out.eq(self.value(s.get("out", ["const", 1]), arg, md["ow"]))

    def value(self, v, din, w):
        kind = v[0]
        if kind == "in":
            return self.inp(w)
        if kind == "const":
            return C(v[1], w)
        if kind == "din":
            return (din.d ^ self.inp(w)) if din is not None and len(din.as_value()) else self.inp(w)
        if kind == "res":
            r = self.site_sig[v[1]]
            return (r.d + 1)[:w] if len(r.as_value()) else self.inp(w)
        raise ValueError(kind)

    def s_call(self, m, s, din):
        meth = self.ref(s["ref"])
        caller = Body.get()
        iw = len(meth.data_in.as_value())
        kw = {}
        if s.get("en"):
            kw["enable_call"] = self.inp()
        before = len(caller.method_calls[meth])
        if iw > 0:
            res = meth(m, {"d": self.value(s.get("arg", ["in"]), din, iw)}, **kw)
        else:
            res = meth(m, **kw)
        assert len(caller.method_calls[meth]) == before + 1
        self.site_tuple[s["sid"]] = caller.method_calls[meth][-1]
        self.site_sig[s["sid"]] = res

    def s_if(self, m, s, din):
        if s.get("sw"):  # the same alternatives as Switch/Case(/Default)
            with m.Switch(self.inp(2)):
                for i, alt in enumerate(s["alts"]):
                    with m.Default() if (s.get("else") and i == len(s["alts"]) - 1) else m.Case(i):
                        self.block(m, alt, din)
            return
        for i, alt in enumerate(s["alts"]):
            if i == 0:
                ctx = m.If(self.inp())
            elif s.get("else") and i == len(s["alts"]) - 1:
                ctx = m.Else()
            else:
                ctx = m.Elif(self.inp())
            with ctx:
                self.block(m, alt, din)

    def s_cond(self, m, s, din):
        with condition(m, nonblocking=bool(s.get("nb")), priority=bool(s.get("prio"))) as branch:
            for br in s["branches"]:
                with branch() if br.get("default") else branch(self.inp()):
                    self.block(m, br["body"], din)


def from_layout(w: int):
    return w


def _or_combiner(m, args, runs):
    acc = C(0, W)
    for i in range(len(args)):
        acc = acc | Mux(runs[i], args[i].d, 0)
    return {"d": acc}


# ========================================================================= real elaboration + read-back
class RecManager(TransactionManager):
    """the real manager; `_simultaneous` additionally snapshots, through the real static analyses,
    which ready dependencies the merged transactions will turn into `enable_call`s
    (manager.py:454-455 `ready_dependencies[transaction] & conditionally_called`)."""

    def _simultaneous(self):
        mm = MethodMap(self.transactions, self.methods)
        rd = self._ready_dependencies(mm)
        cc = self._conditionally_called(mm)
        self.c10_derived = {id(b): [d for d in rd[b] if d in cc] for b in list(rd.keys())}
        self.c10_keep = [rd, cc]
        self.c10_pre = {id(t._body) for t in self.transactions}  # transactions that exist before the merge
        return super()._simultaneous()


class _Wrap(Elaboratable):
    def __init__(self, top, tm):
        self.top, self.tm = top, tm

    def elaborate(self, platform):
        m = Module()
        m.submodules.main_module = self.top
        m.submodules.transactionManager = self.tm
        return m


def _reject_kind(e: BaseException) -> str:
    from .extract import classify_exception

    k = classify_exception(e)
    if k.startswith("other:"):
        msg = " ".join(str(e).split())
        if "Unsatisfiable simultaneity" in msg:
            return "simulUnsat"
        if "Simultaneity constraint for conditionally called" in msg:
            return "simulCondUnsupported"
    return k


PRIO = {Priority.UNDEFINED: "U", Priority.LEFT: "L", Priority.RIGHT: "R"}


def build(spec: dict, want_edges: bool = True) -> dict:
    """Run the REAL code on one design.  Returns
    accepted / reject kind, `cycle` (did Amaranth's netlist check raise CombinationalCycle, with its
    message), the flat scheduling view read from the real manager (`g`), and the real dependency
    edges between the manager's signals (`edges`, from the netlist)."""
    out: dict = {"accepted": False, "reject": None, "cycle": None, "cycle_msg": "", "g": None, "edges": None}
    dm = DependencyManager()
    rec: list = []

    def sched(method_map, gr, cc, porder):
        rec.append((method_map, gr, cc, porder))
        if spec.get("sched") == "rr":
            return _schedulers.trivial_roundrobin_cc_scheduler(method_map, gr, cc, porder)
        return _schedulers.eager_deterministic_cc_scheduler(method_map, gr, cc, porder)

    with DependencyContext(dm):
        if spec.get("kind") == "designgen":
            from .interp import CoreTop

            top = CoreTop(spec["design"])
        else:
            top = LoopTop(spec)
        tm = RecManager(sched)
        try:
            frag = Fragment.get(_Wrap(top, tm), None)
        except CombinationalCycle:
            raise
        except Exception as e:  # noqa: BLE001 - a rejection by the manager is an observation
            tm._MustUse__silence = True  # type: ignore
            out["reject"] = _reject_kind(e)
            out["reject_msg"] = " ".join(str(e).split())[:200]
            return out
        out["accepted"] = True
        design = frag.prepare(ports=[], hierarchy=("top",))
        nl = _nir.Netlist()
        _ir._emit_netlist(nl, design)
        try:
            nl.check_comb_cycles()
            out["cycle"] = False
        except CombinationalCycle as e:
            out["cycle"] = True
            out["cycle_msg"] = _cycle_signals(str(e))
        g, anchors = _read_back(spec, top, tm, rec)
        out["g"] = g
        if want_edges:
            out["edges"] = netlist_edges(nl, anchors)
    return out


def _cycle_signals(msg: str) -> str:
    names = []
    for line in msg.splitlines():
        if ": signal " in line:
            n = line.split(": signal ")[1].split(" bit")[0]
            if not names or names[-1] != n:
                names.append(n)
    return " <- ".join(names)[:600]


def _read_back(spec, top, tm, rec):
    if rec:
        mm, cgr, _, porder = rec[0]
    else:
        mm = MethodMap(tm.transactions, tm.methods)
        cgr, porder = TransactionManager._conflict_graph(mm)
    tb = [t._body for t in tm.transactions]
    mb = [m._body for m in tm.methods]
    allb = sorted({id(x): x for x in tb + mb}.values(), key=lambda x: x.def_order)
    bid = {id(x): i for i, x in enumerate(allb)}
    tids = [bid[id(x)] for x in tb]
    mids = [bid[id(x)] for x in mb]
    anchors: dict[str, Any] = {}
    sites = []
    site_of_tuple = {}
    for i, body in enumerate(allb):
        anchors[f"r{i}"] = body.ready
        anchors[f"u{i}"] = body.run
        if i in tids:
            anchors[f"n{i}"] = body.runnable
        else:
            anchors[f"i{i}"] = body.data_in
            anchors[f"o{i}"] = body.data_out
    for i, body in enumerate(allb):
        for mobj, calls in body.method_calls.items():
            for tup in calls:
                sid = len(sites)
                sites.append([sid, i, bid[id(mobj._body)]])
                site_of_tuple[id(tup)] = sid
                anchors[f"e{sid}"] = tup[2]
                anchors[f"a{sid}"] = tup[1]
    rels = []
    for i, body in enumerate(allb):
        for r in body.relations:
            if id(r.end) in bid:
                rels.append([i, bid[id(r.end)], PRIO[r.priority], int(r.conflict), int(r.ready_dependent)])
    edges = sorted({(bid[id(a)], bid[id(x)]) for a, adj in cgr.items() for x in adj})
    order = [bid[id(t)] for t in sorted(porder.keys(), key=lambda t: porder[t])]
    meths = []
    for i in mids:
        b = allb[i]
        default = getattr(b.combiner, "__qualname__", "").startswith("Body._default_combiner")
        meths.append(
            {
                "id": i,
                "iw": len(b.data_in.as_value()),
                "ow": len(b.data_out.as_value()),
                "val": int(b.validate_arguments is not None),
                "cc": int(not default),
            }
        )
    # derived enables of merged transactions: site (merged transaction -> converted transaction) reads run(dep)
    en_reads = []
    derived = getattr(tm, "c10_derived", {})
    pre = getattr(tm, "c10_pre", set())
    for sid, caller, callee in sites:
        merged = caller in tids and id(allb[caller]) not in pre  # a transaction created by `_simultaneous`
        for d in derived.get(id(allb[callee]), []) if merged else []:
            if id(d) in bid:
                en_reads.append([sid, bid[id(d)]])
    # declared user reads
    ready_reads, ready_local, data_reads = _declared(spec, top, bid, site_of_tuple, allb)
    g = {
        "n": len(allb),
        "trans": tids,
        "meths": meths,
        "sites": sites,
        "rels": rels,
        "cgr": [list(e) for e in edges],
        "order": order,
        "rr": ready_reads,
        "rl": ready_local,
        "er": en_reads,
        "dr": data_reads,
        "names": [b.name for b in allb],
    }
    return g, anchors


def _declared(spec, top, bid, site_of_tuple, allb):
    """user-level reads as DECLARED by the generator (not taken from the netlist)"""
    rr: list = []
    rl: list = []  # ready b reads ready b' (b' purely local)
    dr: list = []
    if spec.get("kind") == "designgen":
        from .extract import _method_stmts

        for name, st in _method_stmts(spec["design"]).items():
            body = top.bodies.get(name)
            if body is None or id(body) not in bid:
                continue
            b = bid[id(body)]
            if st.get("out", ["const"])[0] in ("xorLoc", "addLoc") and len(body.data_in.as_value()) and len(body.data_out.as_value()):
                dr.append([f"o{b}", f"i{b}"])
        return rr, rl, dr

    def bref(name):
        if "." in name or name in top.methods:
            return bid.get(id(top.ref(name)._body))
        return bid.get(id(top.body_of[name])) if name in top.body_of else None

    def walk(stmts, owner):
        for s in stmts:
            k = s["k"]
            if k in ("trans", "method"):
                b = bref(s["name"])
                for x in (s.get("ready") or {}).get("reads", []):
                    rr.append([b, bref(x)])
                walk(s["body"], s["name"])
                if b is not None and k == "method" and spec["methods"][s["name"]]["ow"] > 0:
                    dr.extend(_val_reads(f"o{b}", s.get("out", ["const", 1]), b))
            elif k == "call":
                sid = site_of_tuple.get(id(top.site_tuple[s["sid"]]))
                callee = top.ref(s["ref"])
                if sid is not None and len(callee.data_in.as_value()) > 0:
                    dr.extend(_val_reads(f"a{sid}", s.get("arg", ["in"]), bref(owner) if owner in top.methods else None))
            elif k == "if":
                for alt in s["alts"]:
                    walk(alt, owner)
            elif k == "cond":
                for br in s["branches"]:
                    walk(br["body"], owner)

    def _val_reads(node, v, owner_b):
        if v[0] == "din" and owner_b is not None and len(allb[owner_b].data_in.as_value()) > 0:
            return [[node, f"i{owner_b}"]]
        if v[0] == "res":
            tup = top.site_tuple[v[1]]
            sid = site_of_tuple.get(id(tup))
            callee = next((c for s_, _, c in _sites_cache if s_ == sid), None)
            if callee is not None and len(allb[callee].data_out.as_value()) > 0:
                return [[node, f"o{callee}"]]
        return []

    _sites_cache = []
    for i, body in enumerate(allb):
        for mobj, calls in body.method_calls.items():
            for tup in calls:
                _sites_cache.append((site_of_tuple[id(tup)], i, bid[id(mobj._body)]))
    walk(spec["items"], None)
    # library components: reads written in their source (connectors.py:138-151, 218, 275-281)
    for lb in spec.get("libs", []):
        comp = top.libs[lb["name"]]
        b = lambda mth: bid.get(id(getattr(comp, mth)._body))  # noqa: E731
        if lb["comp"] == "Forwarder":
            rr += [[b("read"), b("write")], [b("peek"), b("write")]]
            dr += [[f"o{b('read')}", f"i{b('write')}"], [f"o{b('peek')}", f"i{b('write')}"]]
        elif lb["comp"] == "Pipe":
            rr += [[b("write"), b("read")]]
        elif lb["comp"] == "Connect":
            dr += [[f"o{b('read')}", f"i{b('write')}"]]
        elif lb["comp"] == "BasicFifo":
            # fifo.py:113-139: write calls allocator.alloc, read calls allocator.free, `peek` is ready iff
            # `allocator.free.ready` (a readiness that is a function of the allocator's registers only);
            # the allocator's methods compute their results from their arguments (allocators.py)
            inner = {}
            for sid, caller, callee in _sites_cache:
                if caller == b("write"):
                    inner["alloc"] = callee
                if caller == b("read"):
                    inner["free"] = callee
            if "free" in inner and b("peek") is not None:
                rl.append([b("peek"), inner["free"]])
            for x in inner.values():
                dr.append([f"o{x}", f"i{x}"])
    rr = [x for x in rr if x[0] is not None and x[1] is not None]
    dr = [x for x in dr if "None" not in x[0] and "None" not in x[1]]
    return rr, rl, dr


# ================================================================================ real dependency graph
def netlist_edges(nl, anchors: dict[str, Any]) -> dict[str, list[str]]:
    """direct combinational dependencies between anchor signals: `x -> y` iff some bit of `x` is
    driven through cells and non-anchor signals by some bit of `y` (the walk of
    `Netlist.check_comb_cycles`, stopped at anchors)."""
    net_anchor: dict = {}
    sig_anchor = SignalDict()
    for name, sig in anchors.items():
        v = Value.cast(sig)
        if isinstance(v, Signal):
            sig_anchor[v] = name
        else:  # data views: as_value() is the underlying signal
            raise AssertionError(f"anchor {name} is not a plain signal")
    late_of: dict[str, list] = {n: [] for n in anchors}
    for net, (sig, bit) in nl.late_to_signal.items():
        if sig in sig_anchor:
            net_anchor[net] = sig_anchor[sig]
            late_of[sig_anchor[sig]].append(net)
    memo: dict = {}

    def fanin(net) -> frozenset:
        """anchors feeding `net` (net itself is NOT an anchor's late net here)"""
        if net in memo:
            return memo[net]
        memo[net] = frozenset()  # cut cycles: a cycle is reported by check_comb_cycles, not here
        acc: set = set()
        stack = [net]
        seen = set()
        while stack:
            n = stack.pop()
            if n in seen:
                continue
            seen.add(n)
            if n.is_const:
                continue
            if n.is_late:
                if n in net_anchor:
                    acc.add(net_anchor[n])
                    continue
                if n in nl.connections:
                    stack.append(nl.connections[n])
                continue
            for src, _ in nl.cells[n.cell].comb_edges_to(n.bit):
                stack.append(src)
        memo[net] = frozenset(acc)
        return memo[net]

    edges: dict[str, list[str]] = {}
    for name, nets in late_of.items():
        acc: set = set()
        for net in nets:
            if net in nl.connections:
                acc |= fanin(nl.connections[net])
        if acc:
            edges[name] = sorted(acc, key=_node_key)
    return edges


def _node_key(n: str):
    return ("rnueaio".index(n[0]), int(n[1:]))


# ========================================================================================= generators
DEFAULT_P = {
    "n_meth": (2, 6),
    "n_trans": (2, 5),
    "n_lib": (0, 2),
    "p_alias": 0.3,
    "p_mcall": 0.5,
    "p_en": 0.3,
    "p_if": 0.25,
    "p_nest": 0.3,
    "p_cond": 0.35,
    "p_cond_in_method": 0.4,
    "p_read": 0.5,  # a body's readiness reads the run of an earlier body (with schedule_before)
    "p_read_parent": 0.6,  # a nested body's readiness reads the run of the enclosing body
    "p_rd": 0.4,
    "p_validate": 0.3,
    "p_nonexcl": 0.2,
    "p_conflict": 0.4,
    "p_excl_conflict": 0.5,  # add_conflict between callees sitting in exclusive alternatives of ONE body
    "p_ready_loc": 0.7,
}

LIBS = ["Forwarder", "Pipe", "Connect", "BasicFifo"]
LIB_METHODS = {
    "Forwarder": {"read": (0, W), "write": (W, 0), "peek": (0, W), "clear": (0, 0)},
    "Pipe": {"read": (0, W), "write": (W, 0), "peek": (0, W), "clear": (0, 0)},
    "Connect": {"read": (0, W), "write": (W, 0)},
    "BasicFifo": {"read": (0, W), "write": (W, 0), "peek": (0, W), "clear": (0, 0)},
}
LIB_NONEXCL = {"Forwarder": {"peek"}, "Pipe": {"peek", "clear"}, "Connect": set(), "BasicFifo": {"peek"}}


class _G:
    """generator state.  Invariants kept so that most designs are accepted by the manager:
    calls go to methods defined earlier (no call cycles); one body never reaches one exclusive
    method twice outside exclusive alternatives (no double call)."""

    def __init__(self, rng: random.Random, P: dict):
        self.rng = rng
        self.P = {**DEFAULT_P, **P}
        self.methods: dict[str, dict] = {}
        self.trans: list[str] = []
        self.libs: list[dict] = []
        self.provides: list[dict] = []
        self.rels: list[dict] = []
        self.closure: dict[str, frozenset] = {}  # callable ref -> exclusive methods reached by a call of it
        self.pure_out: dict[str, bool] = {}  # callable ref -> its result does not depend on any data_in
        self.callable: list[str] = []  # refs that may be called so far
        self.nsid = 0
        self.top_order: list[str] = []  # user bodies in definition order
        self.reads_ok: dict[str, bool] = {}
        self.excl_alts: list = []  # callees placed in different alternatives of one If/Switch of one body
        self.connect: set = set()  # Connect.read/.write: only called unconditionally from top-level transactions
        self.tused: dict[str, set] = {}

    def chance(self, key):
        return self.rng.random() < self.P[key]

    def rint(self, key):
        lo, hi = self.P[key]
        return self.rng.randint(lo, hi)

    def sid(self):
        self.nsid += 1
        return self.nsid - 1

    # ---- callables
    def add_lib(self):
        comp = self.rng.choice(LIBS)
        name = f"f{len(self.libs)}"
        self.libs.append({"name": name, "comp": comp})
        for mth, (iw, ow) in LIB_METHODS[comp].items():
            ref = f"{name}.{mth}"
            # `name#`: one root never reaches two methods of one component (write+read of a
            # Forwarder/Pipe in one transaction is a priority self-loop; of a Connect it is unsatisfiable)
            self.closure[ref] = frozenset({ref, name + "#"})
            if comp == "Connect":
                self.connect.add(ref)
            self.pure_out[ref] = comp not in ("Forwarder", "Connect")
            self.callable.append(ref)
            self.io[ref] = (iw, ow)

    io: dict

    def pick_calls(self, used: set, k: int, allow_connect: bool = False, plain_only: bool = False) -> list[dict]:
        """up to `k` calls whose exclusive closures are disjoint from `used` (updated) and from each other"""
        calls = []
        cands = list(self.callable)
        self.rng.shuffle(cands)
        for ref in cands:
            if len(calls) >= k:
                break
            cl = self.closure[ref]
            if cl & used:
                continue
            if ref in self.connect or (plain_only and not self.plain.get(ref, False)):
                continue
            used |= cl
            calls.append(ref)
        return calls

    def call_stmt(self, ref: str, res_pool: list, in_method: bool, closed_only: bool = False) -> dict:
        iw, ow = self.io[ref]
        s = {"k": "call", "ref": ref, "sid": self.sid()}
        if self.chance("p_en"):
            s["en"] = 1
        if iw > 0:
            validated = self.methods.get(self.resolve(ref), {}).get("validate")
            choices = [["in"], ["const", self.rng.randrange(8)]]
            pure_res = [r for r in res_pool if r[1]]
            if validated or closed_only:
                # data rule: a validated argument must not depend on a data_in that is selected by caller runs;
                # results of methods whose output ignores their argument are always fine, other results only
                # if the method ends up with a single call site (`spec_data_ok` decides; resampled otherwise)
                choices += [["res", r[0]] for r in pure_res]
                if self.rng.random() < 0.4:
                    choices += [["res", r[0]] for r in res_pool]
            else:
                choices += [["res", r[0]] for r in res_pool]
                if in_method:
                    choices += [["din"]] * 2
            s["arg"] = self.rng.choice(choices)
        if ow > 0:
            res_pool.append((s["sid"], self.pure_out[ref]))
        return s

    def resolve(self, ref):
        for pv in self.provides:
            if pv["alias"] == ref:
                return self.resolve(pv["target"])
        return ref


def _body_stmts(g: _G, used: set, in_method: bool, n_calls: int, depth: int, owner_pure: list, allow_connect=False, plain_only=False):
    """statements of one body; `used` = exclusive closure accumulated for the enclosing root"""
    stmts: list = []
    res_pool: list = []
    refs = g.pick_calls(used, n_calls, allow_connect, plain_only)
    i = 0
    while i < len(refs):
        if g.chance("p_if") and i + 1 < len(refs):
            k = g.rng.randint(2, min(3, len(refs) - i))
            alts = [[g.call_stmt(r, [], in_method)] for r in refs[i : i + k]]
            stmts.append({"k": "if", "alts": alts, "else": g.rng.random() < 0.5, "sw": g.rng.random() < 0.3})
            g.excl_alts.append(list(refs[i : i + k]))
            i += k
        else:
            stmts.append(g.call_stmt(refs[i], res_pool, in_method))
            i += 1
    owner_pure.append(res_pool)
    return stmts


def spec_data_ok(spec: dict) -> bool:
    """the data rule, checked statically on a spec: the declared data flow between arguments, `data_in` and
    `data_out` (including `data_in m <- argument of every call of m`) has no cycle, and an argument that is
    inspected by `validate_arguments` does not depend on any `data_in` whose argument multiplexer reads the
    callers' runs (two or more call sites, or a custom combiner)."""
    alias = {p["alias"]: p["target"] for p in spec.get("provides", [])}
    io = dict((n, (d["iw"], d["ow"])) for n, d in spec.get("methods", {}).items())
    for lb in spec.get("libs", []):
        for mth, wd in LIB_METHODS[lb["comp"]].items():
            io[f"{lb['name']}.{mth}"] = wd

    def res(r):
        while r in alias:
            r = alias[r]
        return r

    edges: dict = {}
    site_target: dict = {}
    validated_args = []
    vset = set()
    nsites: dict = {}  # resolved callee -> number of call sites
    custom = set()  # methods with a custom combiner (it looks at `runs`)

    def add(x, y):
        edges.setdefault(x, set()).add(y)

    def collect_sites(stmts):
        for s in stmts:
            k = s["k"]
            if k == "call":
                site_target[s["sid"]] = res(s["ref"])
                nsites[res(s["ref"])] = nsites.get(res(s["ref"]), 0) + 1
            elif k in ("trans", "method"):
                if k == "method" and s.get("validate"):
                    vset.add(s["name"])
                if k == "method" and s.get("nonexcl") and io[s["name"]][0] > 0:
                    custom.add(s["name"])
                collect_sites(s["body"])
            elif k == "if":
                for a in s["alts"]:
                    collect_sites(a)
            elif k == "cond":
                for b in s["branches"]:
                    collect_sites(b["body"])

    collect_sites(spec["items"])

    def val_reads(node, v, owner):
        if v[0] == "din" and owner is not None and io[owner][0] > 0:
            add(node, ("in", owner))
        elif v[0] == "res" and v[1] in site_target and io[site_target[v[1]]][1] > 0:
            add(node, ("out", site_target[v[1]]))

    def walk(stmts, owner):
        for s in stmts:
            k = s["k"]
            if k == "call":
                t = res(s["ref"])
                if io[t][0] > 0:
                    add(("in", t), ("arg", s["sid"]))
                    val_reads(("arg", s["sid"]), s.get("arg", ["in"]), owner)
                    if t in vset:
                        validated_args.append(("arg", s["sid"]))
            elif k == "method":
                walk(s["body"], s["name"])
                if io[s["name"]][1] > 0:
                    val_reads(("out", s["name"]), s.get("out", ["const", 1]), s["name"])
            elif k == "trans":
                walk(s["body"], None)
            elif k == "if":
                for a in s["alts"]:
                    walk(a, owner)
            elif k == "cond":
                for b in s["branches"]:
                    walk(b["body"], owner)

    walk(spec["items"], None)
    for lb in spec.get("libs", []):
        n = lb["name"]
        if lb["comp"] == "Forwarder":
            add(("out", f"{n}.read"), ("in", f"{n}.write"))
            add(("out", f"{n}.peek"), ("in", f"{n}.write"))
        elif lb["comp"] == "Connect":
            add(("out", f"{n}.read"), ("in", f"{n}.write"))
    state: dict = {}

    def dfs(x):  # False on a cycle
        state[x] = 1
        for y in edges.get(x, ()):
            if state.get(y) == 1 or (state.get(y) is None and not dfs(y)):
                return False
        state[x] = 2
        return True

    if not all(state.get(x) == 2 or dfs(x) for x in list(edges)):
        return False
    for a in validated_args:
        seen = set()
        stack = [a]
        while stack:
            x = stack.pop()
            if x in seen:
                continue
            seen.add(x)
            if x[0] == "in" and (nsites.get(x[1], 0) >= 2 or x[1] in custom):
                return False  # this data_in is selected by the callers' runs (manager.py:338-342)
            stack.extend(edges.get(x, ()))
    return True


def gen_positive(rng: random.Random, P: Optional[dict] = None) -> dict:
    """a design obeying the documented rule: readiness is local, or reads the run of a body that was
    declared `schedule_before` this one (directly) or that encloses it (nesting); the data flow obeys
    `spec_data_ok` (resampled otherwise)."""
    for _ in range(40):
        spec = _gen_positive(rng, P)
        if spec_data_ok(spec):
            return spec
    raise RuntimeError("generator: no design with loop-free data flow in 40 tries")


def _gen_positive(rng: random.Random, P: Optional[dict] = None) -> dict:
    g = _G(rng, P or {})
    g.io = {}
    g.plain = {}
    for _ in range(g.rint("n_lib")):
        g.add_lib()
    for ref in g.callable:
        g.plain[ref] = False  # library methods carry relations / run-dependent readiness
    items: list = []
    n_m = g.rint("n_meth")
    defs: list[tuple[str, dict]] = []
    # ---- methods, leaves first
    for k in range(n_m):
        name = f"m{k}"
        nonexcl = g.chance("p_nonexcl")
        iw = 0 if (nonexcl and rng.random() < 0.6) else rng.choice([0, W, W])
        ow = rng.choice([0, W, W])
        validate = iw > 0 and not nonexcl and g.chance("p_validate")
        g.methods[name] = {"iw": iw, "ow": ow, "validate": validate}
        g.io[name] = (iw, ow)
        used: set = set()
        pools: list = []
        body = _body_stmts(g, used, True, rng.randint(1, 2) if g.chance("p_mcall") else 0, 1, pools)
        res_pool = pools[0]
        out = ["const", rng.randrange(8)]
        pure = True
        if ow > 0:
            ch = [["const", rng.randrange(8)], ["in"]]
            if iw > 0:
                ch += [["din"]] * 2
            ch += [["res", r[0]] for r in res_pool]
            out = rng.choice(ch)
            pure = out[0] in ("const", "in") or (out[0] == "res" and dict(res_pool)[out[1]])
        st = {"k": "method", "name": name, "ready": _ready(g), "nonexcl": nonexcl, "validate": validate, "out": out, "body": body}
        g.closure[name] = frozenset(used) | frozenset({name})
        g.pure_out[name] = pure
        g.plain[name] = (not validate) and all(g.plain.get(s.get("ref"), True) for s in _flat_calls(body))
        defs.append((name, st))
        items.append(st)
        g.top_order.append(name)
        g.callable.append(name)
        if g.chance("p_alias") and k < n_m - 1:
            al = f"p{len(g.provides)}"
            g.methods[al] = {"iw": iw, "ow": ow, "validate": False, "alias": True}
            g.io[al] = (iw, ow)
            g.provides.append({"alias": al, "target": name})
            g.closure[al] = g.closure[name]
            g.pure_out[al] = pure
            g.plain[al] = g.plain[name]
            g.callable.append(al)
    # ---- condition() inside a method (called conditionally or not by some transaction)
    cond_methods = []
    if g.chance("p_cond_in_method"):
        name = f"m{n_m}"
        g.methods[name] = {"iw": 0, "ow": 0, "validate": False}
        g.io[name] = (0, 0)
        used = set()
        body = [_cond_stmt(g, used, True, plain_only=True)]
        st = {"k": "method", "name": name, "ready": None, "nonexcl": False, "validate": False, "out": ["const", 0], "body": body}
        g.closure[name] = frozenset(used) | {name}
        g.pure_out[name] = True
        g.plain[name] = False
        items.append(st)
        g.top_order.append(name)
        cond_methods.append(name)
    # ---- transactions
    n_t = g.rint("n_trans")
    for k in range(n_t):
        name = f"t{len(g.trans)}"
        g.trans.append(name)
        used = set()
        pools = []
        body = _body_stmts(g, used, False, rng.randint(1, 3), 0, pools, allow_connect=True)
        if cond_methods and rng.random() < 0.5:
            cm = cond_methods.pop()
            if not (g.closure[cm] & used):
                used |= g.closure[cm]
                call = {"k": "call", "ref": cm, "sid": g.sid()}
                # conditional call -> the merged transactions get a run-derived enable_call
                body.append({"k": "if", "alts": [[call]], "else": False} if rng.random() < 0.7 else call)
        if g.chance("p_cond"):
            body.append(_cond_stmt(g, used, False))
        st = {"k": "trans", "name": name, "ready": _ready(g), "body": body}
        g.tused[name] = used
        g.top_order.append(name)
        if g.chance("p_nest"):
            st["body"].append(_nested(g, name, used))
        items.append(st)
    # Connect: the writer and the reader transaction must not share any method (they are merged)
    for lb in g.libs:
        if lb["comp"] == "Connect":
            for mth in ("write", "read"):
                name = f"t{len(g.trans)}"
                g.trans.append(name)
                call = g.call_stmt(f"{lb['name']}.{mth}", [], False)
                call.pop("en", None)
                items.append({"k": "trans", "name": name, "ready": _ready(g), "body": [call]})
                g.tused[name] = set(g.closure[call["ref"]])
                g.top_order.append(name)
    # a nested body inside a method
    zone = set()  # methods reachable from a condition() inside a method: kept free of nesting / relations / validation
    for cm in [s for s in items if s["k"] == "method" and any(x["k"] == "cond" for x in s["body"])]:
        zone |= {cm["name"]} | set().union(*[g.closure.get(c["ref"], frozenset()) for c in _flat_calls(cm["body"])], set())
        zone |= {g.resolve(c["ref"]) for c in _flat_calls(cm["body"])}
    g.zone = zone
    for name, st in defs:
        if g.chance("p_nest") and rng.random() < 0.4 and not st["nonexcl"] and name not in zone:
            forb = set().union(*[u for u in g.tused.values() if name in u], set())
            st["body"].append(_nested(g, name, forb))
    spec = {
        "kind": "loop",
        "stream": "pos",
        "methods": {n: {"iw": d["iw"], "ow": d["ow"]} for n, d in g.methods.items()},
        "trans": g.trans,
        "libs": g.libs,
        "provides": g.provides,
        "items": items,
        "rels": g.rels,
    }
    _add_relations(g, spec)
    return spec


def _flat_calls(stmts):
    out = []
    for s in stmts:
        if s["k"] == "call":
            out.append(s)
        elif s["k"] == "if":
            for a in s["alts"]:
                out += _flat_calls(a)
        elif s["k"] == "cond":
            for b in s["branches"]:
                out += _flat_calls(b["body"])
        elif s["k"] in ("trans", "method"):
            pass
    return out


def _ready(g: _G):
    return {"loc": True, "reads": []} if g.chance("p_ready_loc") else None


def _cond_stmt(g: _G, used: set, in_method: bool, plain_only: bool = False) -> dict:
    nbr = g.rng.randint(1, 3)
    branches = []
    base = set(used)
    acc = set()
    for b in range(nbr):
        bu = set(base)
        body = _body_stmts(g, bu, in_method, g.rng.randint(0, 2), 1, [], plain_only=plain_only)
        acc |= bu
        branches.append({"default": False, "body": body})
    if g.rng.random() < 0.4:
        bu = set(base)
        branches.append({"default": True, "body": _body_stmts(g, bu, in_method, g.rng.randint(0, 1), 1, [], plain_only=plain_only)})
        acc |= bu
    used |= acc
    return {"k": "cond", "nb": g.rng.random() < 0.4, "prio": g.rng.random() < 0.4, "branches": branches}


def _nested(g: _G, parent: str, forbidden: set) -> dict:
    """a transaction defined inside the body of `parent`; its readiness may read the parent's run (nesting rule).
    Nesting makes it ready-dependent on the parent, so it must not conflict with the parent's callers
    (manager.py:503-514): its callees avoid `forbidden`."""
    name = f"t{len(g.trans)}"
    g.trans.append(name)
    used: set = set(forbidden)
    body = _body_stmts(g, used, False, g.rng.randint(0, 2), 1, [])
    ready = {"loc": g.rng.random() < 0.6, "reads": [parent] if g.chance("p_read_parent") else []}
    g.top_order.append(name)
    return {"k": "trans", "name": name, "ready": ready, "body": body}


def _walk_items(stmts, fn, parent=None):
    for s in stmts:
        k = s["k"]
        if k in ("trans", "method"):
            fn(s, parent)
            _walk_items(s["body"], fn, s["name"])
        elif k == "if":
            for a in s["alts"]:
                _walk_items(a, fn, parent)
        elif k == "cond":
            for b in s["branches"]:
                _walk_items(b["body"], fn, parent)


def _reach(spec) -> dict[str, set]:
    """static call closure of every user body / callable ref (aliases resolved; library methods are leaves)"""
    direct: dict[str, set] = {}
    alias = {p["alias"]: p["target"] for p in spec.get("provides", [])}

    def res(r):
        while r in alias:
            r = alias[r]
        return r

    def collect(stmts):
        out = set()
        for s in stmts:
            if s["k"] == "call":
                out.add(res(s["ref"]))
            elif s["k"] == "if":
                for a in s["alts"]:
                    out |= collect(a)
            elif s["k"] == "cond":
                for b in s["branches"]:
                    out |= collect(b["body"])
        return out

    _walk_items(spec["items"], lambda s, p: direct.__setitem__(s["name"], collect(s["body"])))
    reach: dict[str, set] = {}

    def rec(n):
        if n in reach:
            return reach[n]
        reach[n] = set()
        acc = set()
        for c in direct.get(n, ()):
            acc.add(c)
            acc |= rec(c)
        reach[n] = acc
        return acc

    for n in list(direct):
        rec(n)
    return reach


def _add_relations(g: _G, spec: dict):
    """schedule_before relations + run-reading readiness that OBEY the rule, and some conflicts.
    A relation a -> b is only added when the lifted transaction graph stays acyclic."""
    rng = g.rng
    reach = _reach(spec)
    bodies: list[dict] = []
    parent_of: dict[str, Optional[str]] = {}
    _walk_items(spec["items"], lambda s, p: (bodies.append(s), parent_of.__setitem__(s["name"], p)))
    tnames = [s["name"] for s in bodies if s["k"] == "trans"]

    def callers(n):
        if n in tnames:
            return {n}
        return {t for t in tnames if n in reach.get(t, ())}

    def excl(t):
        return {x for x in reach.get(t, ()) if x in g.closure and x in g.closure[x]} | {t}

    edges: set = set()
    for lb in spec.get("libs", []):
        nm = lb["name"]
        if lb["comp"] == "Forwarder":
            pairs = [(f"{nm}.write", f"{nm}.read"), (f"{nm}.write", f"{nm}.peek")]
        elif lb["comp"] == "Pipe":
            pairs = [(f"{nm}.read", f"{nm}.write"), (f"{nm}.peek", f"{nm}.write")]
        else:
            pairs = []
        for a, b in pairs:
            for ta in callers(a):
                for tb in callers(b):
                    edges.add((ta, tb))
    for s in bodies:  # nesting
        p = parent_of[s["name"]]
        if p is not None:
            for ta in callers(p):
                for tb in callers(s["name"]):
                    edges.add((ta, tb))

    def acyclic(extra):
        es = edges | extra
        adj: dict = {}
        for a, b in es:
            if a == b:
                return False
            adj.setdefault(a, set()).add(b)
        state: dict = {}

        def dfs(n):
            state[n] = 1
            for x in adj.get(n, ()):
                if state.get(x) == 1 or (state.get(x) is None and not dfs(x)):
                    return False
            state[n] = 2
            return True

        return all(state.get(n) == 2 or dfs(n) for n in list(adj))

    order = [s["name"] for s in bodies]  # definition order = pre-order of the body tree (Body.def_order)
    cond_owner = {s["name"] for s in bodies if any(x["k"] == "cond" for x in s["body"])}
    for s in bodies:
        b = s["name"]
        if s.get("ready") is None and rng.random() < 0.5:
            continue
        if not g.chance("p_read") or b in cond_owner:
            continue
        earlier = [x for x in order[: order.index(b)] if x != parent_of[b] and x not in cond_owner and x not in g.zone]
        if not earlier:
            continue
        a = rng.choice(earlier)
        extra = {(ta, tb) for ta in callers(a) for tb in callers(b)}
        if not extra or not acyclic(extra):
            continue
        edges |= extra
        rd = int(g.chance("p_rd") and not any(excl(ta) & excl(tb) for ta in callers(a) for tb in callers(b)))
        spec["rels"].append({"k": "before", "a": a, "b": b, "rd": rd})
        if s.get("ready") is None:
            s["ready"] = {"loc": rng.random() < 0.6, "reads": []}
        s["ready"]["reads"].append(a)
    # conflicts between callees that one body reaches on mutually exclusive paths (If/Elif/Else, Switch/Case), either
    # the callees themselves or methods they call (wrappers): accepted by manager.py:293-300, no edge is added
    alias = {p["alias"]: p["target"] for p in spec.get("provides", [])}
    user_m = {s["name"]: s for s in bodies if s["k"] == "method"}

    def deeper(ref):
        while ref in alias:
            ref = alias[ref]
        inner = [c["ref"] for c in _flat_calls(user_m[ref]["body"])] if ref in user_m else []
        return rng.choice(inner) if inner and rng.random() < 0.5 else ref

    # every call chain of every transaction, as the tuple of control-path labels of its call sites
    # (mirrors MethodMap.info_by_call / call_paths_exclusive, manager.py:31-37, 101-127)
    def stmts_calls(stmts, stack):
        for s in stmts:
            if s["k"] == "call":
                yield s, stack
            elif s["k"] == "if":
                for j, alt in enumerate(s["alts"]):
                    yield from stmts_calls(alt, stack + (("i", id(s), j),))
            elif s["k"] == "cond":
                for j, br in enumerate(s["branches"]):
                    yield from stmts_calls(br["body"], stack + (("c", id(s), j),))

    def chains_from(body_stmts, prefix, depth=0):
        for cs, stack in stmts_calls(body_stmts, ()):
            t = cs["ref"]
            while t in alias:
                t = alias[t]
            path = prefix + (stack,)
            yield t, path
            if t in user_m and depth < 8:
                yield from chains_from(user_m[t]["body"], path, depth + 1)

    tchains = {s["name"]: list(chains_from(s["body"], ())) for s in bodies if s["k"] == "trans"}

    def paths_exclusive(p, q):
        for x, y in zip(p, q):
            if x != y:
                for lx, ly in zip(x, y):
                    if lx != ly:
                        return lx[0] == "i" and ly[0] == "i" and lx[1] == ly[1] and lx[2] != ly[2]
                return False
        return False

    def exclusive_everywhere(ra, rb):
        for ch in tchains.values():
            pa = [p for t, p in ch if t == ra]
            pb = [p for t, p in ch if t == rb]
            if any(not paths_exclusive(x, y) for x in pa for y in pb):
                return False
        return True

    for alts in g.excl_alts:
        if len(alts) < 2 or not g.chance("p_excl_conflict"):
            continue
        a, b = rng.sample(alts, 2)
        a, b = deeper(a), deeper(b)
        ra, rb = a, b
        while ra in alias:
            ra = alias[ra]
        while rb in alias:
            rb = alias[rb]
        if ra == rb or ra in reach.get(rb, ()) or rb in reach.get(ra, ()) or not exclusive_everywhere(ra, rb):
            continue
        if any(r["k"] == "before" and {r["a"], r["b"]} == {a, b} for r in spec["rels"]):
            continue
        spec["rels"].append({"k": "conflict", "a": a, "b": b, "prio": "U" if rng.random() < 0.8 else rng.choice("LR"), "excl": 1})
    # conflicts (with priorities when the order allows)
    allrefs = [s["name"] for s in bodies]
    for _ in range(3):
        if not g.chance("p_conflict") or len(allrefs) < 2:
            continue
        a, b = rng.sample(allrefs, 2)
        if callers(a) & callers(b):
            continue
        prio = rng.choice("ULR")
        extra = set()
        if prio == "L":
            extra = {(ta, tb) for ta in callers(a) for tb in callers(b)}
        elif prio == "R":
            extra = {(tb, ta) for ta in callers(a) for tb in callers(b)}
        if not acyclic(extra):
            continue
        # a ready-dependent pair must not conflict (manager.py:503-514)
        if any(r["k"] == "before" and r.get("rd") and {r["a"], r["b"]} == {a, b} for r in spec["rels"]):
            continue
        edges |= extra
        spec["rels"].append({"k": "conflict", "a": a, "b": b, "prio": prio})


# ------------------------------------------------------------------------------------ negative stream
NEG_KINDS = ["later_rd", "self", "mutual", "conflict_later", "unordered", "method_later"]


def gen_negative(rng: random.Random, kind: Optional[str] = None) -> dict:
    """designs that BREAK the rule on purpose (readiness reads the run of a later / conflicting /
    unrelated body).  No property claim: used to show that the detector and the model see loops."""
    kind = kind or rng.choice(NEG_KINDS)
    methods = {"q": {"iw": 0, "ow": 0}, "x": {"iw": 0, "ow": 0}, "y": {"iw": 0, "ow": 0}}
    items: list = [
        {"k": "method", "name": "q", "ready": {"loc": True, "reads": []}, "body": []},
    ]
    rels: list = []
    sid = iter(range(100))
    loc = lambda: rng.random() < 0.7  # noqa: E731
    if kind == "self":
        items.append({"k": "trans", "name": "t0", "ready": {"loc": loc(), "reads": ["t0"]}, "body": [{"k": "call", "ref": "q", "sid": next(sid)}]})
        trans = ["t0"]
    elif kind == "mutual":
        items.append({"k": "trans", "name": "t0", "ready": {"loc": loc(), "reads": ["t1"]}, "body": []})
        items.append({"k": "trans", "name": "t1", "ready": {"loc": loc(), "reads": ["t0"]}, "body": [{"k": "call", "ref": "q", "sid": next(sid)}]})
        trans = ["t0", "t1"]
    elif kind == "later_rd":
        items.append({"k": "trans", "name": "t0", "ready": {"loc": loc(), "reads": ["t1"]}, "body": []})
        items.append({"k": "trans", "name": "t1", "ready": {"loc": loc(), "reads": []}, "body": [{"k": "call", "ref": "q", "sid": next(sid)}]})
        rels.append({"k": "before", "a": "t0", "b": "t1", "rd": 1})
        trans = ["t0", "t1"]
    elif kind == "conflict_later":
        items.append({"k": "trans", "name": "t0", "ready": {"loc": loc(), "reads": ["t1"]}, "body": []})
        items.append({"k": "trans", "name": "t1", "ready": {"loc": loc(), "reads": []}, "body": [{"k": "call", "ref": "q", "sid": next(sid)}]})
        rels.append({"k": "conflict", "a": "t0", "b": "t1", "prio": "L"})
        trans = ["t0", "t1"]
    elif kind == "unordered":
        items.append({"k": "trans", "name": "t0", "ready": {"loc": loc(), "reads": ["t1"]}, "body": []})
        items.append({"k": "trans", "name": "t1", "ready": {"loc": loc(), "reads": []}, "body": [{"k": "call", "ref": "q", "sid": next(sid)}]})
        trans = ["t0", "t1"]
    elif kind == "method_later":
        # Forwarder written the wrong way round: x.schedule_before(y, rd) but x's readiness reads y's run
        items.append({"k": "method", "name": "x", "ready": {"loc": loc(), "reads": ["y"]}, "body": []})
        items.append({"k": "method", "name": "y", "ready": {"loc": loc(), "reads": []}, "body": []})
        items.append({"k": "trans", "name": "t0", "ready": {"loc": loc(), "reads": []}, "body": [{"k": "call", "ref": "x", "sid": next(sid)}]})
        items.append({"k": "trans", "name": "t1", "ready": {"loc": loc(), "reads": []}, "body": [{"k": "call", "ref": "y", "sid": next(sid)}]})
        rels.append({"k": "before", "a": "x", "b": "y", "rd": 1})
        trans = ["t0", "t1"]
    else:
        raise ValueError(kind)
    # some unrelated well-formed context around it
    for k in range(rng.randint(0, 2)):
        nm = f"c{k}"
        trans.append(nm)
        items.append({"k": "trans", "name": nm, "ready": {"loc": True, "reads": []}, "body": [{"k": "call", "ref": "q", "sid": next(sid)}] if rng.random() < 0.5 else []})
    for s in items:
        if s["k"] == "method":
            s.setdefault("nonexcl", False)
            s.setdefault("validate", False)
            s.setdefault("out", ["const", 0])
    methods = {s["name"]: methods[s["name"]] for s in items if s["k"] == "method"}
    return {"kind": "loop", "stream": "neg", "neg": kind, "methods": methods, "trans": trans, "libs": [], "provides": [], "items": items, "rels": rels}
