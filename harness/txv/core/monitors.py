"""Property monitors for the core properties C01-C05, C07, C08, C11.

Each monitor is a direct transcription of the property sentence, evaluated on the
observations of the REAL circuit (`View`s: values of real signals per valuation, keyed by the
names of the abstract design) and on the static description `analysis.Desc` of the abstract
design.  Nothing here looks at the Lean model, at `CtrlPath` objects or at the manager's
data structures.

A call site is *active* when its witness `w` (set in `m.d.comb` next to the call: caller
runs and all surrounding conditions hold) is 1 and its `enable_call` input is 1.
It is *available* when `wa` (same, in `av_comb`: conditions only) and the enable are 1.
"""

from __future__ import annotations

from dataclasses import dataclass
from typing import Optional

from .analysis import Desc, classify, enable_value


@dataclass
class View:
    idx: int
    inputs: dict
    ready: dict  # body name -> bit
    run: dict  # body name -> bit
    runnable: dict  # transaction name -> bit
    din: dict  # method name -> int
    dout: dict
    w: dict  # site -> bit
    wa: dict
    res: dict


def _enable(desc: Desc, v: View, sid: int) -> int:
    return enable_value(desc.sites[sid].stmt, v.inputs)


def active(desc: Desc, v: View, sid: int) -> bool:
    return bool(v.w[sid] and _enable(desc, v, sid))


def available(desc: Desc, v: View, sid: int) -> bool:
    return bool(v.wa[sid] and _enable(desc, v, sid))


def arg_value(desc: Desc, v: View, sid: int) -> int:
    s = desc.sites[sid]
    iw = desc.mdesc[s.ref]["iw"]
    if iw == 0:
        return 0
    a = s.stmt.get("arg")
    val = v.inputs.get(a, 0) if isinstance(a, str) else int(a or 0)
    return val & ((1 << iw) - 1)


def pred_holds(validate, x: int) -> bool:
    kind, c = validate
    if kind == "mbit":
        return (x & (1 << c)) != 0
    if kind in ("mnz", "mlow2"):
        return x != 0
    if kind == "minc":
        return x + 1 != 0
    return {"eq": x == c, "ne": x != c, "lt": x < c, "bit": bool((x >> c) & 1)}[kind]


def site_pred_holds(desc: Desc, v: View, validate, sid: int) -> bool:
    """the validate_arguments predicate of the callee evaluated for call site `sid`"""
    kind, c = validate
    if kind == "sig":
        return bool(v.inputs.get(c, 0))
    if kind == "nsig":
        return not v.inputs.get(c, 0)
    return pred_holds(validate, arg_value(desc, v, sid))


def sites_of(desc: Desc, m: str) -> list[int]:
    return [s.sid for s in desc.sites.values() if s.callee == m]


# ------------------------------------------------------------------------------ C01
def mon_c01(desc: Desc, views: list[View]) -> Optional[tuple[str, int]]:
    excl = [m for m in desc.methods if not desc.bodies[m].nonexclusive]
    shared = []
    ts = desc.transactions
    for i, t1 in enumerate(ts):
        for t2 in ts[i + 1 :]:
            bad = None
            for x in excl:
                if x in desc.tree_methods(t1) and x in desc.tree_methods(t2):
                    for c1 in desc.chains(t1):
                        if desc.target(c1) != x:
                            continue
                        for c2 in desc.chains(t2):
                            if desc.target(c2) == x and not desc.pair_ok(c1, c2, strict=False):
                                bad = (x, c1, c2)
            if bad:
                shared.append((t1, t2, bad))
    for v in views:
        for m in excl:
            act = [s for s in sites_of(desc, m) if active(desc, v, s)]
            if len(act) > 1:
                return f"exclusive method {m} has {len(act)} active call sites {act} in one cycle", v.idx
        for t1, t2, (x, c1, c2) in shared:
            if v.run[t1] and v.run[t2]:
                return (
                    f"transactions {t1} and {t2} run together although both reach exclusive method {x} "
                    f"through call chains {list(c1)} / {list(c2)} that are not in different alternatives of one structure"
                ), v.idx
    return None


# ------------------------------------------------------------------------------ C02
def mon_c02(desc: Desc, views: list[View]) -> Optional[tuple[str, int]]:
    pairs = []
    for r in desc.conflict_relations():
        a = r["a"] if r["a"] in desc.bodies and desc.bodies[r["a"]].kind == "t" else desc.resolve(r["a"])
        b = r["b"] if r["b"] in desc.bodies and desc.bodies[r["b"]].kind == "t" else desc.resolve(r["b"])
        pairs.append((a, b, r))
    for v in views:
        for a, b, r in pairs:
            if v.run[a] and v.run[b]:
                return f"add_conflict({r['a']}, {r['b']}, {r['prio']}) but {a} and {b} both run", v.idx
    return None


# ------------------------------------------------------------------------------ C03
def validators_hold_for_active(desc: Desc, v: View) -> Optional[str]:
    for s in desc.sites.values():
        val = desc.bodies[s.callee].stmt.get("validate")
        if val and active(desc, v, s.sid) and not site_pred_holds(desc, v, val, s.sid):
            return f"active call site {s.sid} of {s.callee} has argument {arg_value(desc, v, s.sid)} violating {val}"
    return None


def mon_c03(desc: Desc, views: list[View]) -> Optional[tuple[str, int]]:
    for v in views:
        bad = validators_hold_for_active(desc, v)
        if bad:
            return bad, v.idx
        for t in desc.transactions:
            if not v.run[t]:
                continue
            if not v.ready[t]:
                return f"{t} runs but is not ready", v.idx
            for m in desc.tree_methods(t):
                if not v.ready[m]:
                    return f"{t} runs but method {m} of its static call tree is not ready", v.idx
            for b in [t] + desc.tree_methods(t):
                for d in desc.ready_deps(b):
                    if not v.run[d]:
                        return f"{t} runs but {d}, on which {b} is ready-dependent, does not run", v.idx
    return None


# ------------------------------------------------------------------------------ C04
def mon_c04(desc: Desc, views: list[View]) -> Optional[tuple[str, int]]:
    for v in views:
        for m in desc.methods:
            act = [s for s in sites_of(desc, m) if active(desc, v, s)]
            if bool(v.run[m]) != bool(act):
                return f"method {m} run={v.run[m]} but active call sites = {act}", v.idx
        for b in desc.bodies.values():
            if b.parent is not None and v.run[b.name] and not v.run[b.parent]:
                return f"nested body {b.name} runs while its enclosing body {b.parent} does not", v.idx
    return None


# ------------------------------------------------------------------------------ C05
def combine(kind: str, vals: list[int], n_active: int, iw: int) -> int:
    mask = (1 << iw) - 1
    acc = 0
    if kind == "or":
        for x in vals:
            acc |= x
    elif kind == "sum":
        acc = sum(vals)
    elif kind == "xor":
        for x in vals:
            acc ^= x
    elif kind == "count":
        acc = n_active
    return acc & mask


def mon_c05(desc: Desc, views: list[View]) -> Optional[tuple[str, int]]:
    for v in views:
        for m in desc.methods:
            b = desc.bodies[m]
            iw = desc.mdesc[m]["iw"]
            act = [s for s in sites_of(desc, m) if active(desc, v, s)]
            if iw > 0 and v.run[m]:
                if not b.nonexclusive:
                    if len(act) == 1 and v.din[m] != arg_value(desc, v, act[0]):
                        return (
                            f"exclusive method {m} runs with data_in={v.din[m]} but its single active call "
                            f"(site {act[0]}) passes {arg_value(desc, v, act[0])}"
                        ), v.idx
                elif b.stmt.get("combiner"):
                    exp = combine(b.stmt["combiner"], [arg_value(desc, v, s) for s in act], len(act), iw)
                    if v.din[m] != exp:
                        return (
                            f"nonexclusive method {m} (combiner {b.stmt['combiner']}) sees data_in={v.din[m]}, "
                            f"combiner over active calls {act} gives {exp}"
                        ), v.idx
        for s in desc.sites.values():
            if desc.mdesc[s.ref]["ow"] > 0 and v.res[s.sid] != v.dout[s.callee]:
                return f"call site {s.sid} ({s.ref} -> {s.callee}) sees result {v.res[s.sid]} but the method outputs {v.dout[s.callee]}", v.idx
    return None


# ------------------------------------------------------------------------------ C07 / C08
def fully_enabled(desc: Desc, v: View, t: str) -> bool:
    """the C03 condition, computed from ready bits, argument/condition inputs and run bits of
    ready-dependency sources; never from `runnable`"""
    if not v.ready[t]:
        return False
    tree = desc.tree_methods(t)
    if any(not v.ready[m] for m in tree):
        return False
    for b in [t] + tree:
        if any(not v.run[d] for d in desc.ready_deps(b)):
            return False
    for ch in desc.chains(t):
        m = desc.target(ch)
        val = desc.bodies[m].stmt.get("validate")
        if val and all(available(desc, v, s) for s in ch) and not site_pred_holds(desc, v, val, ch[-1]):
            return False
    return True


def mon_c07(desc: Desc, views: list[View], only: Optional[set] = None) -> Optional[tuple[str, int]]:
    ts = desc.transactions
    conf = {t: [u for u in ts if u != t and desc.conflict_weak(t, u)] for t in ts}
    for v in views:
        for t in ts:
            if only is not None and t not in only:
                continue
            if not v.run[t] and fully_enabled(desc, v, t):
                if not any(v.run[u] for u in conf[t]):
                    return (
                        f"{t} is fully enabled but does not run, and none of its conflicting transactions "
                        f"{conf[t]} runs"
                    ), v.idx
    return None


def mon_c08(desc: Desc, views: list[View]) -> Optional[tuple[str, int]]:
    ts = desc.transactions
    conf = {t: [u for u in ts if u != t and desc.conflict_weak(t, u)] for t in ts}
    pr = []
    for r in desc.conflict_relations():
        if r["prio"] == "U":
            continue
        hi, lo = (r["a"], r["b"]) if r["prio"] == "L" else (r["b"], r["a"])
        for th in desc.trans_for(hi):
            for tl in desc.trans_for(lo):
                if th != tl:
                    pr.append((th, tl, r))
    involved = set()
    for r in desc.design["relations"]:
        if r["k"] == "before":
            involved |= set(desc.trans_for(r["a"])) | set(desc.trans_for(r["b"]))
    ends = []
    for r in desc.conflict_relations():
        if r["prio"] != "U":
            a = r["a"] if r["a"] in desc.bodies and desc.bodies[r["a"]].kind == "t" else desc.resolve(r["a"])
            b = r["b"] if r["b"] in desc.bodies and desc.bodies[r["b"]].kind == "t" else desc.resolve(r["b"])
            ends.append((a, b, r))
    for v in views:
        for a, b, r in ends:  # the two sides of a prioritised conflict themselves (also when one transaction runs both)
            if v.run[a] and v.run[b]:
                return f"add_conflict({r['a']},{r['b']},{r['prio']}): both sides {a} and {b} run", v.idx
        for th, tl, r in pr:
            if v.run[tl] and fully_enabled(desc, v, th) and fully_enabled(desc, v, tl):
                if v.run[th]:
                    return f"add_conflict({r['a']},{r['b']},{r['prio']}): both {th} and {tl} run", v.idx
                if not any(v.run[u] for u in conf[th] if u != tl):
                    return (
                        f"add_conflict({r['a']},{r['b']},{r['prio']}): both sides fully enabled, lower-priority {tl} "
                        f"runs although higher-priority {th} is not blocked by any other running transaction"
                    ), v.idx
    if involved:
        return mon_c07(desc, views, only=involved)
    return None


# ------------------------------------------------------------------------------ C11
def mon_c11(desc: Desc, reject: Optional[str], expect_kind: Optional[str] = None) -> Optional[str]:
    """`reject` = kind of the exception the real manager raised (None = elaborated)."""
    c = classify(desc)
    if c["must"] == "reject":
        if reject is None:
            return f"ill-formed design was accepted: {c['why'][:2]}"
        if reject not in c["kinds"]:
            return f"ill-formed design ({sorted(c['definite'])}) was rejected for another reason: {reject}"
    elif c["must"] == "accept":
        if reject is not None:
            return f"design free of the listed defects was rejected: {reject}"
    # (a self-calling method that first calls another exclusive method is reported by the real code as a
    #  double call before the recursion is noticed: both are errors, `classify` lists both kinds for a cycle)
    if expect_kind is not None and c["must"] != "reject":
        return None  # the injection did not produce a definite defect (classification decides, not the label)
    return None


MONITORS = {"C01": mon_c01, "C02": mon_c02, "C03": mon_c03, "C04": mon_c04, "C05": mon_c05, "C07": mon_c07, "C08": mon_c08}
