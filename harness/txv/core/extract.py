"""Elaborate an abstract design with the REAL Transactron code and read back what the manager saw.

No hooks: the user circuit is elaborated inside a `DependencyContext`, then the real
`TransactionManager` is elaborated (exactly the two steps of
`TransactronContextElaboratable.elaborate`); an exception raised by the manager is an
observation (reject kind).  The flat design is read from the real `Body` objects
(`method_calls`, `ctrl_path`, `relations`, flags, `def_order`), `provide` chains are resolved
through `Method._body`.  The manager's own results (`MethodMap`, `cgr`, `porder`, connected
components) are captured by passing a scheduler callback that records its arguments and then
calls the real `eager_deterministic_cc_scheduler` (a public constructor parameter of
`TransactionManager`).

Canonical body id = rank of `Body.def_order`.  Module uids (a global counter) are renamed to
their rank among the uids that occur.  Everything that comes out of a Python set/dict of
objects is sorted.
"""

from __future__ import annotations

import re
from dataclasses import dataclass, field
from typing import Any, Optional

from amaranth.hdl import Fragment

from transactron.core.manager import TransactionManager
from transactron.core import schedulers as _schedulers
from transactron.core.keys import TransactionsKey, DefinedMethodsKey
from transactron.core.transaction_base import Priority
from transactron.utils.dependencies import DependencyContext, DependencyManager

from .interp import CoreTop

_KINDS = [
    (r"calls itself through", "cycle"),
    (r"called twice from", "doubleCall"),
    (r"scheduled before .* but defined afterwards", "schedBeforeDefinedAfter"),
    (r"conflicts with .* but both are run by transaction", "sameTransConflict"),
    (r"in conflict\. This will lead to a deadlock", "readyDepConflict"),
    (r"Single-caller method", "singleCaller"),
]


def classify_exception(e: BaseException) -> str:
    if type(e).__name__ == "NetworkXUnfeasible":
        return "unsatPriority"
    msg = " ".join(str(e).split())
    if isinstance(e, RuntimeError):
        for pat, kind in _KINDS:
            if re.search(pat, msg):
                return kind
    return f"other:{type(e).__name__}"


@dataclass
class Built:
    design: dict
    top: CoreTop
    dm: DependencyManager
    tm: TransactionManager
    fragment: Any = None  # user fragment
    tm_fragment: Any = None
    reject: Optional[str] = None  # reject kind, None if the manager accepted
    reject_msg: str = ""
    sched_calls: list = field(default_factory=list)  # (method_map, cgr, cc, porder) per component
    bodies: list = field(default_factory=list)  # Body objects in canonical order
    body_id: dict = field(default_factory=dict)  # id(Body) -> canonical id
    name_of: dict = field(default_factory=dict)  # canonical id -> abstract name
    id_of: dict = field(default_factory=dict)  # abstract name -> canonical id
    trans_ids: list = field(default_factory=list)
    meth_ids: list = field(default_factory=list)
    flat: dict = field(default_factory=dict)
    summary: str = ""
    porder: Optional[list] = None
    mismatch: list = field(default_factory=list)  # disagreements between real objects and abstract design


def build(design: dict) -> Built:
    """interp + real elaboration of user circuit and manager"""
    dm = DependencyManager()
    b = Built(design, None, dm, None)  # type: ignore

    def recording_scheduler(method_map, gr, cc, porder):
        b.sched_calls.append((method_map, gr, cc, porder))
        return _schedulers.eager_deterministic_cc_scheduler(method_map, gr, cc, porder)

    with DependencyContext(dm):
        b.top = CoreTop(design)
        b.tm = TransactionManager(recording_scheduler)
        b.fragment = Fragment.get(b.top, None)
        try:
            b.tm_fragment = Fragment.get(b.tm, None)
        except Exception as e:  # noqa: BLE001 - any exception of the manager is an observation
            b.reject = classify_exception(e)
            b.reject_msg = " ".join(str(e).split())[:300]
            b.tm._MustUse__silence = True  # type: ignore
    _extract(b)
    return b


def _path(cp, modmap) -> tuple[int, list]:
    return modmap(cp.module), [[e.alt, e.par] for e in cp.path]


def _extract(b: Built):
    top, tm = b.top, b.tm
    transactions = list(getattr(tm, "transactions", None) or b.dm.dependencies.get(TransactionsKey(), []))
    methods = list(getattr(tm, "methods", None) or b.dm.dependencies.get(DefinedMethodsKey(), []))
    tbodies = [t._body for t in transactions]
    mbodies = [m._body for m in methods]
    allb = sorted(tbodies + mbodies, key=lambda x: x.def_order)
    b.bodies = allb
    b.body_id = {id(x): i for i, x in enumerate(allb)}
    for name, body in top.bodies.items():
        if id(body) in b.body_id:
            b.name_of[b.body_id[id(body)]] = name
            b.id_of[name] = b.body_id[id(body)]
    b.trans_ids = [b.body_id[id(x)] for x in tbodies]
    b.meth_ids = [b.body_id[id(x)] for x in mbodies]

    uids = set()
    for body in allb:
        uids.add(body.ctrl_path.module)
        for calls in body.method_calls.values():
            for cp, _, _ in calls:
                uids.add(cp.module)
    ranks = {u: i for i, u in enumerate(sorted(uids))}
    modmap = lambda u: ranks[u]  # noqa: E731

    site_of = {id(rec.call_tuple): sid for sid, rec in top.sites.items() if rec.call_tuple is not None}
    for sid, rec in sorted(top.sites.items()):
        if rec.call_tuple is None:
            b.mismatch.append(f"call site {sid} ({rec.stmt['ref']}) of the design was not registered in method_calls of its caller")
    uidl = [m.uid for m in top.tmodules]
    if len(set(uidl)) != len(uidl):
        b.mismatch.append(f"distinct TModule objects share a uid: {sorted(uidl)}")
    expected = set(top.bodies)
    if len(allb) != len(expected) or any(id(x) not in b.body_id for x in top.bodies.values()):
        b.mismatch.append(f"manager sees {len(allb)} bodies, the design defines {len(expected)}")
    extra_sites = [len(top.sites)]
    stmts = _method_stmts(b.design)
    prio = {Priority.UNDEFINED: "U", Priority.LEFT: "L", Priority.RIGHT: "R"}
    fb = []
    for i, body in enumerate(allb):
        is_t = any(body is x for x in tbodies)
        name = b.name_of.get(i)
        st = stmts.get(name, {}) if not is_t else {}
        mod, p = _path(body.ctrl_path, modmap)
        calls = []
        for mobj, cl in body.method_calls.items():
            callee = mobj._body  # provide chains resolved by the real code
            for tup in cl:
                cm, cpth = _path(tup[0], modmap)
                if id(tup) not in site_of:
                    site_of[id(tup)] = extra_sites[0]
                    extra_sites[0] += 1
                    b.mismatch.append(f"body {name} has a method_calls entry that no call of the design produced")
                calls.append({"c": b.body_id[id(callee)], "m": cm, "p": cpth, "s": site_of[id(tup)]})
        rels = []
        for r in body.relations:
            rels.append(
                {
                    "d": b.body_id.get(id(r.end), len(allb)),  # out of range -> model says malformed/pruned
                    "p": prio[r.priority],
                    "c": int(r.conflict),
                    "rd": int(r.ready_dependent),
                    "sl": int(r.silence_warning),
                }
            )
        has_val = body.validate_arguments is not None
        if has_val != bool(st.get("validate")):
            raise AssertionError(f"validate flag mismatch for {name}")
        fb.append(
            {
                "t": int(is_t),
                "dp": {"m": mod, "p": p},
                "do": body.def_order,
                "nx": int(bool(body.nonexclusive)),
                "sc": int(bool(body.single_caller)),
                "val": _flat_pred(st["validate"]) if has_val else None,
                "comb": st.get("combiner") or "mux",
                "iw": len(body.data_in.as_value()),
                "ow": len(body.data_out.as_value()),
                "out": list(st.get("out", ["const", 0])),
                "calls": calls,
                "rels": rels,
            }
        )
    b.flat = {"bodies": fb, "trans": b.trans_ids, "meths": b.meth_ids, "porder": None}

    if b.reject is not None:
        b.summary = f"reject kind={b.reject}"
        return
    # ---- the manager's own results
    if b.sched_calls:
        mm, cgr, _, porder = b.sched_calls[0]
        ccs = [cc for _, _, cc, _ in b.sched_calls]
    else:  # no transactions at all
        from transactron.core.manager import MethodMap

        mm = MethodMap(tm.transactions, tm.methods)
        cgr, porder = TransactionManager._conflict_graph(mm)
        ccs = []
    bid = lambda x: b.body_id[id(x)]  # noqa: E731
    order = sorted(porder.keys(), key=lambda t: porder[t])
    b.porder = [bid(t) for t in order]
    b.flat["porder"] = b.porder
    mbt = sorted((bid(t), sorted(bid(m) for m in ms)) for t, ms in mm.methods_by_transaction.items())
    tbm = sorted((bid(m), sorted(bid(t) for t in ts)) for m, ts in mm.transactions_by_method.items())
    edges = sorted({(min(bid(a), bid(x)), max(bid(a), bid(x))) for a, adj in cgr.items() for x in adj})
    ccl = sorted(sorted(bid(t) for t in cc) for cc in ccs)

    def assoc(l):
        return ";".join(f"{k}:{_lst(v)}" for k, v in l) if l else "-"

    b.summary = (
        f"ok mbt={assoc(mbt)} tbm={assoc(tbm)} "
        f"cgr={','.join(f'{a}-{c}' for a, c in edges) if edges else '-'} "
        f"ccs={'|'.join(_lst(c) for c in ccl) if ccl else '-'} vo=1 hyp=1 rdl=1"
    )
    b.mbt, b.tbm, b.edges, b.ccs = dict(mbt), dict(tbm), edges, ccl  # type: ignore


def _flat_pred(val):
    """predicate as the model sees it.  A zero-argument method guarded by an input signal g
    (`validate_arguments=lambda: g` / `lambda: ~g`) is encoded on the Python side only: the valuation handed
    to the model carries the value of g in the (otherwise constant 0) argument slot of every call site of that
    method, and the predicate becomes arg != 0 / arg == 0; the method's input width stays 0, so `data_in` is
    unaffected (see simcore.simulate)."""
    kind, c = val
    if kind == "sig":
        return ["ne", 0]
    if kind == "nsig":
        return ["eq", 0]
    # multi-bit validator results: valid iff the value is non-zero
    if kind == "mbit":  # arg & (1 << c)
        return ["bit", c]
    if kind in ("mnz", "mlow2"):  # arg & all-ones ; arg[0:2] of a 2-bit argument
        return ["ne", 0]
    if kind == "minc":  # arg + 1 (one bit wider: never zero)
        return ["lt", 1 << 16]
    return [kind, c]


def _lst(v) -> str:
    return ",".join(str(x) for x in v) if v else "-"


def _method_stmts(design: dict) -> dict:
    out = {}

    def walk(block):
        for s in block:
            k = s["k"]
            if k == "method":
                out[s["ref"]] = s
                walk(s["block"])
            elif k == "trans":
                walk(s["block"])
            elif k == "if":
                for a in s["alts"]:
                    walk(a["block"])
            elif k == "switch":
                for c in s["cases"]:
                    walk(c["block"])
            elif k == "fsm":
                for st in s["states"]:
                    walk(st["block"])

    for mod in design["modules"]:
        walk(mod["block"])
    return out
