"""Directed designs of the core checks: one small design per known failure shape.

Every design here is the minimal shape that a seeded change of the core (seeded/C01-1 ... C11-4)
needs in order to manifest, expressed in the abstract design language of designgen.py.  They are run
FIRST on every run of the properties they are tagged with (before the random streams), with all
input valuations (every design has <= 12 input bits), so that catching a known breaking change never
depends on the random draw.  On the unchanged tree all of them pass (must-reject designs are
rejected, the others satisfy every monitor).
"""

from __future__ import annotations


class B:
    """tiny builder for abstract designs"""

    def __init__(self):
        self.inputs: dict = {}
        self.ns = 0
        self.nu = 0
        self.methods: list = []
        self.groups: list = []

    def i(self, w=1, pre="i"):
        n = f"{pre}{len(self.inputs)}"
        self.inputs[n] = w
        return n

    def decl(self, ref, iw=0, ow=0, owner=0, group=None, fields=None):
        self.methods.append({"ref": ref, "iw": iw, "ow": ow, "owner": owner, "group": group, **({"fields": fields} if fields else {})})
        return ref

    def meth(self, ref, block=(), ready=True, nx=0, comb=None, sc=0, val=None, out=None, sugar=0):
        d = next(m for m in self.methods if m["ref"] == ref)
        loc = None
        if out is None:
            out = ["const", 0] if d["ow"] == 0 else ["xorLoc"]
        if out[0] != "const":
            loc = self.i(d["ow"], "l")
        return {"k": "method", "ref": ref, "ready": self.i(1, "r") if ready else None, "nonexclusive": nx, "combiner": comb,
                "single_caller": sc, "validate": val, "out": out, "loc": loc, "sugar": sugar, "block": list(block)}

    def trans(self, name, block=(), ready=True):
        return {"k": "trans", "name": name, "ready": self.i(1, "r") if ready else None, "block": list(block)}

    def call(self, ref, en=None, kw=0, via_group=0, const=None, argform="dict"):
        """en: None (no enable) | True (fresh input) | ("C"|"int"|"bool", 0|1) constant"""
        d = next(m for m in self.methods if m["ref"] == ref)
        arg = None
        if d["iw"]:
            arg = self.i(d["iw"], "a") if const is None else const
        s = self.ns
        self.ns += 1
        enable = None
        if en is True:
            enable = self.i(1, "e")
        elif isinstance(en, tuple):
            enable = {"const": en[1], "form": en[0]}
        return {"k": "call", "site": s, "ref": ref, "enable": enable, "arg": arg, "kw": kw, "via_group": via_group, "argform": argform}

    def If(self, *blocks, els=False):  # noqa: N802
        u = self.nu
        self.nu += 1
        alts = [{"cond": (None if (els and k == len(blocks) - 1) else self.i(1, "c")), "block": list(b)} for k, b in enumerate(blocks)]
        return {"k": "if", "uid": u, "alts": alts}

    def Fsm(self, *blocks):  # noqa: N802
        u = self.nu
        self.nu += 1
        return {"k": "fsm", "uid": u, "state": f"f{u}", "states": [{"name": f"S{k}", "block": list(b)} for k, b in enumerate(blocks)]}

    def design(self, modules, relations=(), subclass=()):
        return {"inputs": self.inputs, "methods": self.methods, "groups": self.groups,
                "modules": [{"name": f"mod{k}", "block": list(b), "subclass": int(k in subclass)} for k, b in enumerate(modules)],
                "relations": list(relations), "nsites": self.ns, "tag": "directed", "inject": None, "vseed": 11}


def conflict(a, b, prio="U"):
    return {"k": "conflict", "a": a, "b": b, "prio": prio}


def before(a, b, rd=0):
    return {"k": "before", "a": a, "b": b, "rd": rd}


def _all() -> list[tuple[str, tuple, dict]]:
    out: list = []

    def add(name, props, design):
        design["id"] = f"directed/{name}"
        out.append((name, tuple(props), design))

    # ---- one body reached through an alias and its target (C01-1) : must reject
    b = B(); b.decl("x", 2); b.decl("al", 2, owner=None)
    add("alias_and_target", ["C01", "C11"], b.design([[b.meth("x"), {"k": "provide", "ref": "al", "target": "x"},
        b.trans("t0", [b.call("al"), b.call("x")])]]))
    # ---- aligned If / Else in two different modules calling one exclusive method (C01-2, C02-4, C08-4, C11-3)
    for sub, nm in (((), "plain"), ((0,), "subclass")):
        b = B(); b.decl("x", 0, owner=None)
        add(f"cross_module_calls_{nm}", ["C01", "C07"], b.design([
            [b.trans("t0", [b.If([b.call("x")])])],
            [b.trans("t1", [b.If([], [b.call("x")], els=True)])],
            [b.meth("x", ready=False)]], subclass=sub))
        b = B(); b.decl("hi", 0, owner=None); b.decl("lo", 0, owner=None)
        add(f"cross_module_defs_{nm}", ["C02", "C08", "C01"], b.design([
            [b.If([b.trans("t0", [b.call("hi")])])],
            [b.If([], [b.trans("t1", [b.call("lo")])], els=True)],
            [b.meth("hi", ready=False), b.meth("lo", ready=False)]], [conflict("hi", "lo", "L")], subclass=sub))
    b = B()
    add("cross_module_readydep_conflict", ["C11"], b.design([
        [b.If([b.trans("t0")])], [b.If([], [b.trans("t1")], els=True)]], [conflict("t0", "t1"), before("t0", "t1", 1)]))
    b = B(); b.decl("x", 0, owner=None); b.decl("c1", 0, owner=0); b.decl("c2", 0, owner=1)
    add("cross_module_double_call", ["C11", "C01"], b.design([
        [b.meth("c1", [b.If([b.call("x")])], ready=False)],
        [b.meth("c2", [b.If([], [b.call("x")], els=True)], ready=False)],
        [b.meth("x", ready=False), b.trans("t0", [b.call("c1"), b.call("c2")])]]))
    # ---- second visit of a method in another alternative, duplicate reached from that alternative (C01-3)
    b = B(); b.decl("x"); b.decl("c")
    add("dup_in_second_alternative", ["C01", "C11"], b.design([[b.meth("x", ready=False), b.meth("c", [b.call("x")], ready=False),
        b.trans("t0", [b.If([b.call("c")], [b.call("c"), b.call("x")], els=True)])]]))
    # ---- A -> N(nonexclusive) -> X and B -> X, A defined first (C01-4); and N at different depths (C07-3)
    b = B(); b.decl("x", 2); b.decl("n", 0)
    add("nonexclusive_wrapper_vs_direct", ["C01", "C07", "C05"], b.design([[b.meth("x", ready=False), b.meth("n", [b.call("x")], ready=False, nx=1),
        b.trans("ta", [b.call("n")]), b.trans("tb", [b.call("x")])]]))
    b = B(); b.decl("n", 0); b.decl("e", 0)
    add("nonexclusive_at_two_depths", ["C07", "C01"], b.design([[b.meth("n", ready=False, nx=1), b.meth("e", [b.call("n")], ready=False),
        b.trans("ta", [b.call("n")]), b.trans("tb", [b.call("e")])]]))
    # ---- same-transaction conflict, mixed exclusive / non-exclusive pairs (C02-1) : must reject
    b = B(); b.decl("a"); b.decl("bb")
    add("same_trans_conflict_mixed", ["C02", "C11"], b.design([[b.meth("a", ready=False), b.meth("bb", ready=False),
        b.trans("t0", [b.If([b.call("a"), b.call("bb")], [b.call("a")], els=True)])]], [conflict("a", "bb")]))
    b = B(); b.decl("a"); b.decl("bb")
    add("same_trans_conflict_mixed_prio", ["C08", "C02", "C11"], b.design([[b.meth("a", ready=False), b.meth("bb", ready=False),
        b.trans("t0", [b.If([b.call("a")], [b.call("a"), b.call("bb")], els=True)])]], [conflict("a", "bb", "L")]))
    # ---- same-transaction conflict on exclusive paths, other callers of the end defined later (C02-2, C08-1)
    for nx, prio, nm in ((1, "U", "nonexclusive_end"), (0, "R", "prio_right"), (0, "L", "prio_left_extra")):
        b = B(); b.decl("a"); b.decl("bb")
        rel = [conflict("a", "bb", prio)]
        mods = [b.meth("a", ready=False), b.meth("bb", ready=False, nx=nx),
                b.trans("tboth", [b.If([b.call("a")], [b.call("bb")], els=True)]), b.trans("tlate", [b.call("bb")])]
        if nm == "prio_left_extra":
            mods.append(b.trans("tx"))
            rel.append(conflict("tboth", "tx"))
        add(f"same_trans_exclusive_{nm}", ["C02", "C08"], b.design([mods], rel))
    # ---- nested FSMs, an outer state opened after the nested FSM was closed (C02-3, C04-3, C05-4)
    b = B()
    add("nested_fsm_defs", ["C02", "C04", "C03"], b.design([[b.Fsm([b.Fsm([], []), b.trans("ta")], [b.trans("tb")])]], [conflict("ta", "tb")]))
    b = B(); b.decl("m", 2, 2)
    add("nested_fsm_calls", ["C04", "C05", "C03"], b.design([[b.meth("m", ready=False),
        b.trans("t0", [b.Fsm([b.Fsm([], [b.call("m")])], [b.call("m")])])]]))
    # ---- 3-level diamond in one transaction, validated leaf two levels below the join (C03-1, C04-1)
    b = B(); b.decl("leaf", 2, 2); b.decl("mid", 2); b.decl("left", 2); b.decl("right", 2)
    mid = b.meth("mid", [b.call("leaf")], ready=False)
    add("diamond_three_levels", ["C03", "C04", "C05", "C07"], b.design([[b.meth("leaf", ready=False, val=["ne", 0]), mid,
        b.meth("left", [b.call("mid", const=1)], ready=False), b.meth("right", [b.call("mid", const=2)], ready=False),
        b.trans("t0", [b.If([b.call("left", const=0)], [b.call("right", const=0)], els=True)])]]))
    # ---- two ready-dependency sources: nesting plus explicit schedule_before (C03-3)
    b = B()
    add("two_ready_dependencies", ["C03", "C04"], b.design([[b.trans("q"), b.trans("p", [b.trans("t")])]], [before("q", "t", 1)]))
    b = B(); b.decl("n"); b.decl("s1"); b.decl("s2")
    add("two_ready_dependencies_method", ["C03", "C04"], b.design([[b.meth("s1"), b.meth("s2"), b.meth("n"),
        b.trans("t1", [b.call("s1")]), b.trans("t2", [b.call("s2")]), b.trans("t0", [b.call("n")])]], [before("s1", "n", 1), before("s2", "n", 1)]))
    # ---- constant enables (C03-4, C04-4, C05-1)
    for form in ("C", "int", "bool"):
        b = B(); b.decl("m", 0); b.decl("n", 2); b.decl("o", 0)
        add(f"const_enable_{form}", ["C03", "C04", "C05"], b.design([[b.meth("m"), b.meth("n", ready=False, nx=1, comb="sum"),
            b.meth("o", [b.call("m", en=(form, 0))], ready=False),
            b.trans("t0", [b.call("m", en=(form, 0)), b.call("n", en=(form, 0)), b.call("n", en=(form, 1))]),
            b.trans("t1", [b.call("n", const=1), b.call("o")])]]))
    b = B(); b.decl("m", 2)
    add("const_enable_in_branch", ["C05", "C04"], b.design([[b.meth("m", ready=False),
        b.trans("t0", [b.If([b.call("m", en=("C", 0))], [b.call("m")], els=True)])]]))
    # ---- Methods collection of count 1 called through the collection with an enable (C05-2)
    b = B(); b.decl("m", 2, 0); b.decl("n", 2)
    b.groups.append({"name": "g0", "count": 1, "iw": 2, "ow": 0, "owner": 0}); b.decl("g0_0", 2, 0, group=["g0", 0])
    b.groups.append({"name": "g1", "count": 1, "iw": 2, "ow": 0, "owner": 0}); b.decl("g1_0", 2, 0, group=["g1", 0])
    add("methods_collection_enable", ["C05", "C04"], b.design([[b.meth("m", ready=False), b.meth("n", ready=False, nx=1, comb="sum"),
        {"k": "provide_group", "group": "g0", "targets": ["m"]}, {"k": "provide_group", "group": "g1", "targets": ["n"]},
        b.trans("t0", [b.call("g0_0", en=True, via_group=1), b.call("g1_0", en=True, via_group=1), b.call("n")])]]))
    # ---- custom combiner with a single call site (C05-3)
    for comb in ("count", "sum"):
        b = B(); b.decl("n", 2, 2)
        add(f"combiner_single_site_{comb}", ["C05"], b.design([[b.meth("n", ready=False, nx=1, comb=comb, out=["xorLoc"]), b.trans("t0", [b.call("n", en=True)])]]))
    # ---- conflict chain A--B--C with A and C independent (C07-1), star/hub degrees (C08-2)
    b = B(); b.decl("x"); b.decl("y")
    add("conflict_chain", ["C07", "C08"], b.design([[b.meth("x", ready=False), b.meth("y", ready=False),
        b.trans("ta", [b.call("x")]), b.trans("tb", [b.call("x"), b.call("y")]), b.trans("tc", [b.call("y")])]],
        [conflict("ta", "tb", "L"), conflict("tb", "tc", "L")]))
    for prio, a, c in (("L", "thi", "tlo"), ("R", "tlo", "thi")):
        b = B()
        add(f"priority_hub_{prio}", ["C08", "C07"], b.design([[b.trans("tlo"), b.trans("thi"), b.trans("tby")]], [conflict(a, c, prio), conflict("thi", "tby")]))
    # ---- add_conflict on a method plus an unrelated schedule_before between transactions (C07-2)
    b = B(); b.decl("m0"); b.decl("m1")
    add("conflict_and_unrelated_before", ["C07", "C08"], b.design([[b.meth("m0", ready=False), b.meth("m1", ready=False),
        b.trans("t0", [b.call("m0")]), b.trans("t1", [b.call("m1")]), b.trans("t2"), b.trans("t3")]], [conflict("m0", "m1"), before("t2", "t3")]))
    # ---- validated exclusive method called only conditionally (C07-4)
    b = B(); b.decl("v", 1)
    add("validated_conditional_call", ["C07", "C03"], b.design([[b.meth("v", ready=False, val=["ne", 0]),
        b.trans("t0", [b.If([b.call("v")])]), b.trans("t1", [b.If([b.call("v")], [b.call("v")])])]]))
    # ---- two relations lifting to the same ordered pair, unprioritised first (C08-3)
    b = B()
    for r in ("ahi", "alo", "bhi", "blo"):
        b.decl(r)
    add("two_relations_same_pair", ["C08"], b.design([[b.meth("ahi", ready=False), b.meth("alo", ready=False), b.meth("bhi", ready=False), b.meth("blo", ready=False),
        b.trans("tlo", [b.call("alo"), b.call("blo")]), b.trans("thi", [b.call("ahi"), b.call("bhi")])]],
        [conflict("ahi", "alo", "U"), conflict("bhi", "blo", "L")]))
    b = B(); b.decl("ahi"); b.decl("alo")
    add("two_relations_same_pair_mixed", ["C08"], b.design([[b.meth("ahi", ready=False), b.meth("alo", ready=False),
        b.trans("tlo", [b.call("alo")]), b.trans("thi", [b.call("ahi")])]], [conflict("ahi", "alo", "U"), conflict("thi", "tlo", "L")]))
    # ---- nonexclusive method called twice with an exclusive method below (C11-1) : must reject
    for via in (0, 1):
        b = B(); b.decl("e"); b.decl("n"); b.decl("h")
        blk = [b.meth("e", ready=False), b.meth("n", [b.call("e")], ready=False, nx=1), b.meth("h", [b.call("n")], ready=False)]
        t = b.trans("t0", [b.call("n"), b.call("h") if via else b.call("n")])
        add(f"nonexclusive_twice_{'via_helper' if via else 'direct'}", ["C11", "C01"], b.design([blk + [t]]))
    # ---- priority cycles through control-path-exclusive transactions (C11-2) : must reject
    b = B()
    add("priority_cycle_exclusive_defs_2", ["C11", "C08"], b.design([[b.If([b.trans("t1")], [b.trans("t2")], els=True)]],
        [conflict("t1", "t2", "L"), conflict("t2", "t1", "L")]))
    b = B()
    add("priority_cycle_exclusive_defs_3", ["C11", "C08"], b.design([[b.Fsm([b.trans("t1")], [b.trans("t2")]), b.trans("t3")]],
        [conflict("t1", "t2", "L"), conflict("t2", "t3", "L"), conflict("t3", "t1", "L")]))
    # ---- explicit ready dependency on a conflicting transaction (C11-4) : must reject
    b = B(); b.decl("x")
    add("explicit_readydep_conflict", ["C11", "C03"], b.design([[b.meth("x", ready=False), b.trans("t0", [b.call("x")]), b.trans("t1", [b.call("x")])]],
        [before("t0", "t1", 1)]))
    b = B()
    add("explicit_readydep_conflict_rel", ["C11"], b.design([[b.trans("t0"), b.trans("t1")]], [before("t0", "t1", 1), conflict("t1", "t0", "R")]))
    # ---- zero-argument methods guarded by validate_arguments (C03-5): exclusive / nonexclusive, direct /
    #      conditional / through another method
    for nx in (0, 1):
        b = B(); b.decl("g"); b.decl("h")
        add(f"zero_width_validate_{'nonexclusive' if nx else 'exclusive'}", ["C03", "C07"], b.design([[
            b.meth("g", ready=False, nx=nx, val=["sig" if nx else "nsig", b.i(1, "g")]), b.meth("h", [b.call("g")], ready=False),
            b.trans("t0", [b.call("g")]), b.trans("t1", [b.If([b.call("g")])]), b.trans("t2", [b.call("h", en=True)])]]))
    # ---- stacked relation declarations on one ordered pair (C03-6)
    b = B(); b.decl("a"); b.decl("bb")
    add("stacked_before_plain_then_rd", ["C03", "C04", "C08"], b.design([[b.meth("a"), b.meth("bb"), b.trans("q"), b.trans("t"),
        b.trans("ta", [b.call("a")]), b.trans("tb", [b.call("bb")])]],
        [before("q", "t", 0), before("q", "t", 1), before("a", "bb", 0), before("a", "bb", 1)]))
    b = B(); b.decl("a"); b.decl("bb")
    add("stacked_before_rd_then_plain", ["C03", "C04", "C08"], b.design([[b.meth("a"), b.meth("bb"), b.trans("q"), b.trans("t"),
        b.trans("ta", [b.call("a")]), b.trans("tb", [b.call("bb")])]],
        [before("q", "t", 1), before("q", "t", 0), before("a", "bb", 1), before("a", "bb", 0)]))
    b = B()
    add("stacked_before_and_conflict", ["C02", "C07", "C08", "C03"], b.design([[b.trans("t0"), b.trans("t1"), b.trans("t2"), b.trans("t3")]],
        [before("t0", "t1", 0), conflict("t0", "t1", "L"), conflict("t2", "t3", "U"), before("t2", "t3", 0), conflict("t2", "t3", "L")]))
    # ---- validators with a multi-bit result: valid iff non-zero (C07-5)
    for kind, iw in ((["mbit", 1], 2), (["mnz", 0], 2), (["mlow2", 0], 2), (["minc", 0], 2)):
        b = B(); b.decl("v", iw)
        add(f"validator_multibit_{kind[0]}", ["C07", "C03"], b.design([[b.meth("v", ready=False, val=kind),
            b.trans("t0", [b.call("v")]), b.trans("t1", [b.If([b.call("v")])])]]))
    # ---- mutual recursion that nothing outside the cycle calls (C11-6) : must reject
    for n, entry in ((2, 0), (3, 0), (2, 1)):
        b = B()
        names = [f"p{k}" for k in range(n)]
        for r in names + ["entry", "x"]:
            b.decl(r)
        blk = [b.meth(names[k], [b.call(names[(k + 1) % n])], ready=False) for k in range(n)]
        if entry:
            blk.append(b.meth("entry", [b.call(names[0])], ready=False))
        else:
            blk.append(b.meth("entry", ready=False))
        blk += [b.meth("x", ready=False), b.trans("t0", [b.call("x")])]
        add(f"uncalled_cycle_{n}{'_entry' if entry else ''}", ["C11"], b.design([blk]))
    # ---- multi-field input layout, argument passed as a positional View with the same field names declared in
    #      the opposite order, next to dict / kwargs / own-layout views (C05-8)
    for fields in ([1, 2], [2, 1], [1, 1]):
        iw = sum(fields)
        b = B(); b.decl("m", iw, 0, fields=fields); b.decl("al", iw, 0, owner=None, fields=fields)
        add(f"view_argument_permuted_{fields[0]}{fields[1]}", ["C05", "C04"], b.design([[b.meth("m", ready=False), {"k": "provide", "ref": "al", "target": "m"},
            b.trans("t0", [b.If([b.call("m", argform="view")], [b.call("al", argform="view", en=True)], els=True)])]]))
    b = B(); b.decl("m", 3, 0, fields=[1, 2])
    add("view_argument_forms", ["C05"], b.design([[b.meth("m", ready=False),
        b.trans("t0", [b.Fsm([b.call("m", argform="view")], [b.call("m", argform="view_same", const=5)], [b.call("m", argform="dict", const=6)],
                             [b.call("m", argform="kw", const=3)])])]]))
    # ---- prioritised conflicts declared ON a provide()-alias (receiver) and with an alias as the argument (C08-7)
    for prio in ("L", "R"):
        for recv in (1, 0):
            b = B(); b.decl("x"); b.decl("y"); b.decl("al", owner=None); b.decl("bl", owner=None)
            rel = [conflict("al", "y", prio)] if recv else [conflict("y", "al", prio)]
            rel.append(conflict("bl", "t3", prio) if recv else conflict("t3", "bl", prio))
            add(f"alias_priority_{'receiver' if recv else 'argument'}_{prio}", ["C08", "C02"], b.design([[
                b.meth("x", ready=False), b.meth("y", ready=False), {"k": "provide", "ref": "al", "target": "x"}, {"k": "provide", "ref": "bl", "target": "y"},
                b.trans("t0", [b.call("al")]), b.trans("t1", [b.call("y")]), b.trans("t2", [b.call("x", en=True)]), b.trans("t3")]], rel))
    return out


def directed(pid: str) -> list[dict]:
    """the directed designs relevant to property `pid`"""
    return [d for _, props, d in _all() if pid in props]
