"""pysim evaluation of the elaborated REAL design over input valuations (comb-only).

Per valuation everything the properties talk about is sampled from the real signals:
`ready`/`runnable`/`run` of every transaction body, `ready`/`run`/`data_in`/`data_out` of
every method body, per call site the real `enable_sig` and `arg_rec` (the valuation handed
to the Lean model), the witnesses `w`/`wa` and the call result.
"""

from __future__ import annotations

import random
from dataclasses import dataclass, field
from typing import Optional

from amaranth import *  # noqa: F403
from amaranth.sim import Simulator

from .extract import Built
from .analysis import enable_value

MAX_EXHAUSTIVE_BITS = 12


@dataclass
class Obs:
    inputs: dict  # input id -> value
    ready: list  # per body id
    run: list  # per body id
    runnable: dict  # transaction id -> bit
    din: dict  # method id -> value
    dout: dict  # method id -> value
    en: list  # per site: the real enable_sig
    arg: list  # per site: the real arg_rec
    w: list  # per site witness in comb
    wa: list  # per site witness in av_comb
    res: list  # per site call result (0 when the method has no output)
    loc: list = field(default_factory=list)  # per body id (0 for transactions)


def valuations(widths: dict[str, int], rng: random.Random, n_random: int, max_patterns: Optional[int] = None):
    """all valuations when the design has <= 12 input bits, else `n_random` random ones plus
    all-zeros / all-ones / one-hot / one-cold patterns.  Returned as dicts id -> value."""
    names = sorted(widths)
    total = sum(widths.values())
    out = []
    if total <= MAX_EXHAUSTIVE_BITS:
        for x in range(1 << total):
            v = {}
            for n in names:
                v[n] = x & ((1 << widths[n]) - 1)
                x >>= widths[n]
            out.append(v)
        return out, True
    ones = {n: (1 << widths[n]) - 1 for n in names}
    out.append({n: 0 for n in names})
    out.append(dict(ones))
    pat = names if max_patterns is None or len(names) <= max_patterns else sorted(rng.sample(names, max_patterns))
    for n in pat:  # one-hot / one-cold per input (all bits of that input)
        out.append({k: (ones[k] if k == n else 0) for k in names})
        out.append({k: (0 if k == n else ones[k]) for k in names})
    for _ in range(n_random):
        p = rng.choice([0.5, 0.7, 0.85, 0.95])
        v = {}
        for n in names:
            w = widths[n]
            if w == 1:
                v[n] = int(rng.random() < p)
            else:
                v[n] = rng.randrange(1 << w)
        out.append(v)
    return out, False


def simulate(b: Built, vals: list[dict]) -> list[Obs]:
    """One `ctx.set` of an input bus and one `ctx.get` of a concatenation of all observed
    signals per valuation (every `ctx.set` costs a full settle step in pysim).  The design's
    input Signals stay ordinary top-level Signals: the harness top drives them from the bus.
    FSM state registers are overwritten directly (only when their value changes)."""
    assert b.reject is None
    top = b.top
    m = Module()
    m.submodules.main_module = b.fragment
    m.submodules.transactionManager = b.tm_fragment
    plain = [(n, sig) for n, sig in sorted(top.inputs.items()) if n not in top.fsm_inputs]
    fsm = [(n, sig) for n, sig in sorted(top.inputs.items()) if n in top.fsm_inputs]
    total = sum(len(sig) for _, sig in plain)
    bus = Signal(max(total, 1), name="inbus")
    lo = 0
    for _, sig in plain:
        m.d.comb += sig.eq(bus[lo : lo + len(sig)])
        lo += len(sig)
    nb = len(b.bodies)
    nsites = len(top.sites)
    sites = [top.sites[i] for i in range(nsites)]
    loc_in = {}
    from .extract import _method_stmts

    for ref, st in _method_stmts(b.design).items():
        if st.get("loc") is not None and ref in b.id_of:
            loc_in[b.id_of[ref]] = st["loc"]
    ts = sorted(b.trans_ids)
    tset = set(ts)
    mids = [i for i in range(nb) if i not in tset]
    # observed signals, in a fixed order; widths remembered for unpacking
    sigs: list = []
    sigs += [x.ready for x in b.bodies]
    sigs += [x.run for x in b.bodies]
    sigs += [b.bodies[i].runnable for i in ts]
    sigs += [b.bodies[i].data_in.as_value() for i in mids]
    sigs += [b.bodies[i].data_out.as_value() for i in mids]
    sigs += [(r.call_tuple[2] if r.call_tuple is not None else C(0, 1)) for r in sites]
    sigs += [(r.call_tuple[1].as_value() if r.call_tuple is not None else C(0, 0)) for r in sites]
    sigs += [r.w for r in sites]
    sigs += [r.wa for r in sites]
    sigs += [(r.res if r.res is not None else C(0, 0)) for r in sites]
    widths = [len(x) for x in sigs]
    # zero-argument methods guarded by an input signal: the guard's value travels in the argument slot
    mstmts = _method_stmts(b.design)
    guard_of_site: dict = {}
    for k, r in enumerate(sites):
        try:
            st = mstmts.get(b.name_of.get(b.body_id.get(id(r.method_obj._body))), {})
        except Exception:  # noqa: BLE001 - undefined method etc.: no guard
            st = {}
        val = st.get("validate")
        if val and val[0] in ("sig", "nsig"):
            guard_of_site[k] = val[1]
    allobs = Signal(max(sum(widths), 1), name="obsbus")  # a real signal: read by one compiled assignment
    m.d.comb += allobs.eq(Cat(*sigs))
    sim = Simulator(m)
    result: list[Obs] = []

    async def tb(ctx):
        last_fsm: dict = {}
        for v in vals:
            x = 0
            lo = 0
            for n, sig in plain:
                x |= (v.get(n, 0) & ((1 << len(sig)) - 1)) << lo
                lo += len(sig)
            for n, sig in fsm:
                val = v.get(n, 0) & ((1 << len(sig)) - 1)
                if last_fsm.get(n) != val:
                    ctx.set(sig, val)
                    last_fsm[n] = val
            ctx.set(bus, x)
            await ctx.delay(1e-6)
            packed = ctx.get(allobs)
            out = []
            for w in widths:
                out.append(packed & ((1 << w) - 1))
                packed >>= w
            it = iter(out)
            take = lambda k: [next(it) for _ in range(k)]  # noqa: E731
            ready = take(nb)
            run = take(nb)
            rn = take(len(ts))
            din = take(len(mids))
            dout = take(len(mids))
            result.append(
                Obs(
                    inputs=v,
                    ready=ready,
                    run=run,
                    runnable=dict(zip(ts, rn)),
                    din=dict(zip(mids, din)),
                    dout=dict(zip(mids, dout)),
                    en=take(nsites),
                    arg=[(v.get(guard_of_site[k], 0) if k in guard_of_site else a) for k, a in enumerate(take(nsites))],
                    w=take(nsites),
                    wa=take(nsites),
                    res=take(nsites),
                    loc=[(v.get(loc_in[i], 0) if i in loc_in else 0) for i in range(nb)],
                )
            )

    sim.add_testbench(tb)
    sim.run()
    return result


def _bits(l) -> str:
    return "".join(str(int(x)) for x in l) if l else "-"


def _nums(l) -> str:
    return ",".join(str(int(x)) for x in l) if l else "-"


def lean_line(o: Obs) -> str:
    """valuation line for the Lean driver: the signals the manager reads, as sampled from the real circuit"""
    return f"v r={_bits(o.ready)} e={_bits(o.en)} a={_nums(o.arg)} l={_nums(o.loc)}"


def impl_line(b: Built, o: Obs) -> str:
    """observation line in the format the Lean driver prints"""
    top = b.top
    sites = [top.sites[i] for i in range(len(top.sites))]
    act = []
    for i, r in enumerate(sites):
        act.append(o.w[i] & enable_value(r.stmt, o.inputs))
    ts = sorted(b.trans_ids)
    ms = sorted(b.meth_ids)
    return (
        f"rn={_bits([o.runnable[t] for t in ts])} run={_bits(o.run)} act={_bits(act)} "
        f"din={_nums([o.din[m] for m in ms])} dout={_nums([o.dout[m] for m in ms])} res={_nums(o.res)} hx=1 cons=1 hyp=1"
    )
