"""C12/C13: generator, real-API builder, flat-design extraction and pysim runner for uses of
`condition()`, `simultaneous()` and `Connect` (transactron/lib/simultaneous.py,
transactron/core/manager.py `_simultaneous`, transactron/lib/connectors.py).

A *spec* is a small JSON-able description of a circuit:

  spec   = {"nin": N, "dins": [widths], "leaves": [{"name", "ready": k|None}],
            "connects": [{"name", "w", "rw"}], "items": [bodydef], "simul": [[nameA, nameB]],
            "aliases": [{"name", "target"}]   (Method().provide(target); names usable in calls and in "simul"),
            "conflicts": [[nameA, nameB, "U"|"L"|"R"]]   (nameA.add_conflict(nameB, priority)),
            "tag": str}
  bodydef= {"k":"trans","name","ready":k|None,"block":[stmt]}
         | {"k":"method","name","ready":k|None,"nx":0|1,"block":[stmt]}
         | {"k":"if","alts":[{"c":k|None,"items":[bodydef]}]}            transactions defined under m.If/Elif/Else
         | {"k":"switch","sel":[k…],"cases":[{"pat":int|None,"items":[bodydef]}]}   … under m.Switch/Case/Default
         | {"k":"fsm","sel":[k…],"states":[{"items":[bodydef]}]}          … under m.FSM/State (state register driven
                                                                            by the testbench from the inputs `sel`)
  stmt   = {"k":"call","m":name,"en":k|None,"arg":dk|None}     m = leaf / user method / "cn0.write" / "cn0.read"
         | {"k":"cond","nb":0|1,"prio":0|1,"branches":[{"c":k|None,"block":[stmt]}]}   c=None: default branch
         | {"k":"trans","name","ready":k|None,"block":[stmt]}  (a transaction nested in the enclosing body)
         | {"k":"if"|"switch"|"fsm", … "items":[stmt]}          (calls written inside m.If/Elif/Else, m.Switch/Case,
                                                                 m.FSM/State in the body; same fields as the top-level form)

`build(spec)` interprets it with the REAL API (`TModule`, `Transaction().body`, `def_method`,
`condition`, `Connect`, `.simultaneous`), elaborates the user circuit and then the real
`TransactionManager` exactly as `TransactronContextElaboratable` does, and reads back

  * the PRE-merge flat design (bodies, calls, relations, `simultaneous_list`, `independent_list`)
    before the manager runs (`_simultaneous` mutates the relation lists), and
  * the POST-merge design the manager schedules (`tm.transactions` / `tm.methods` after
    `_simultaneous`), `cgr` and `porder` through a recording scheduler.

Canonical ids: pre-merge bodies = rank of `Body.def_order`; merged transactions (created while the
manager iterates a Python set of frozensets) are identified by their member set and numbered after
the pre-merge bodies in lexicographic order of the sorted member lists; their call sites are
numbered after the user sites in (group, callee) order, and the ctrl paths inside the manager's
private `TModule` are renumbered accordingly (`[[0,g],[0,j]]`: transaction g, j-th call) after
checking that the real paths have exactly that form for the real creation order.

Nothing here looks at the Lean model; the monitors (props/c12.py, c13.py) use only the spec and the
observations produced by `simulate`.
"""

from __future__ import annotations

import json
import random
import re
from dataclasses import dataclass, field
from typing import Any, Optional

from amaranth import *  # noqa: F403
from amaranth.hdl import Fragment
from amaranth.sim import Simulator

from transactron import Method, Transaction, TModule, def_method
from transactron.core.body import Body
from transactron.core.manager import TransactionManager, MethodMap
from transactron.core import schedulers as _schedulers
from transactron.core.keys import TransactionsKey, DefinedMethodsKey, ProvidedMethodsKey
from transactron.core.transaction_base import Priority
from transactron.lib.simultaneous import condition
from transactron.lib.connectors import Connect
from transactron.utils.dependencies import DependencyContext, DependencyManager

MAX_EXHAUSTIVE_BITS = 12

_KINDS = [
    (r"calls itself through", "cycle"),
    (r"called twice from", "doubleCall"),
    (r"scheduled before .* but defined afterwards", "schedBeforeDefinedAfter"),
    (r"conflicts with .* but both are run by transaction", "sameTransConflict"),
    (r"in conflict\. This will lead to a deadlock", "readyDepConflict"),
    (r"Single-caller method", "singleCaller"),
    (r"Unsatisfiable simultaneity constraints", "simulUnsat"),
    (r"Simultaneity constraint for conditionally called method", "simulCondUnsupported"),
]


def classify_exception(e: BaseException) -> str:
    if type(e).__name__ == "NetworkXUnfeasible":
        return "unsatPriority"
    msg = " ".join(str(e).split())
    if isinstance(e, RuntimeError):
        for pat, kind in _KINDS:
            if re.search(pat, msg):
                return kind
    return f"other:{type(e).__name__}"


# ------------------------------------------------------------------------------------ guards (Amaranth control flow)
def g_and(a, b):
    if a is None:
        return b
    if b is None:
        return a
    return ["and", a, b]


def g_all(lits: list):
    out = None
    for l in lits:
        out = g_and(out, l)
    return out


def _sel_is(sel: list, val: int):
    return g_all([(["in", k] if (val >> i) & 1 else ["not", ["in", k]]) for i, k in enumerate(sel)])


def alt_guards(item: dict) -> list:
    """per alternative of a top-level control structure: (guard expression over the inputs, items) - the Amaranth
    semantics of If/Elif/Else (first true condition), Switch (patterns are distinct; Default = no case matches) and
    FSM (state register = the value of the `sel` inputs) written out"""
    out = []
    if item["k"] == "if":
        prev: list = []
        for alt in item["alts"]:
            me = [["not", ["in", c]] for c in prev] + ([["in", alt["c"]]] if alt["c"] is not None else [])
            out.append((g_all(me), alt["items"]))
            if alt["c"] is not None:
                prev.append(alt["c"])
    elif item["k"] == "switch":
        pats = [c["pat"] for c in item["cases"] if c["pat"] is not None]
        for c in item["cases"]:
            if c["pat"] is not None:
                out.append((_sel_is(item["sel"], c["pat"]), c["items"]))
            else:
                out.append((g_all([["not", _sel_is(item["sel"], p)] for p in pats]), c["items"]))
    elif item["k"] == "fsm":
        # the state register has just enough bits for the states (a one-state FSM has none: always in that state)
        nbits = (len(item["states"]) - 1).bit_length()
        for i, st in enumerate(item["states"]):
            out.append((_sel_is(item["sel"][:nbits], i), st["items"]))
    return out


def inner_blocks(s: dict) -> list:
    """the statement lists of the alternatives of a control structure written inside a body"""
    if s["k"] == "if":
        return [a["items"] for a in s["alts"]]
    if s["k"] == "switch":
        return [c["items"] for c in s["cases"]]
    if s["k"] == "fsm":
        return [st["items"] for st in s["states"]]
    return []


def calls_of(block: list) -> list:
    """call statements written directly in a body, including those inside If/Switch/FSM alternatives (not those of
    nested bodies / condition branches)"""
    out = []
    for s in block:
        if s["k"] == "call":
            out.append(s)
        else:
            for blk in inner_blocks(s):
                out += calls_of(blk)
    return out


def flat_items(spec: dict) -> list:
    """top-level body definitions with the guard of the control structure they are written in (None: none)"""
    out = []
    for it in spec["items"]:
        if it["k"] in ("if", "switch", "fsm"):
            for guard, items in alt_guards(it):
                out += [(x, guard) for x in items]
        else:
            out.append((it, None))
    return out


def g_eval(e, bits) -> int:
    if e is None or e[0] == "one":
        return 1
    if e[0] == "in":
        return bits[e[1]]
    if e[0] == "not":
        return 1 - g_eval(e[1], bits)
    return g_eval(e[1], bits) & g_eval(e[2], bits)


# ------------------------------------------------------------------------------------ real build
@dataclass
class SiteRec:
    caller: Body
    method_obj: Any
    call_tuple: tuple  # (ctrl_path, arg_rec, enable_sig) appended to caller.method_calls[method_obj]
    res: Optional[Signal]
    stmt: dict
    guard: Any = None


@dataclass
class UseRec:
    parent: Body
    branches: list  # Body objects, in source order (the implicit default of nonblocking last)
    conds: list  # per explicit branch: input index or None (default)
    nb: int
    prio: int
    stmt: dict


def _layout(w: int):
    return [("d", w)] if w > 0 else []


class SimulTop(Elaboratable):
    def __init__(self, spec: dict):
        self.spec = spec
        self.inputs = [Signal(name=f"i{k}") for k in range(spec["nin"])]
        self.dins = [Signal(w, name=f"d{k}") for k, w in enumerate(spec.get("dins", []))]
        self.methods: dict[str, Method] = {}
        self.connects: dict[str, Connect] = {}
        self.objs: dict[str, Any] = {}  # name -> Transaction / Method object (for `simul`)
        self.bodies: dict[str, Body] = {}  # name -> Body
        self.sites: list[SiteRec] = []
        self.uses: list[UseRec] = []
        self.guard: Any = None  # guard of the top-level control structure being built
        self.body_guard: dict[str, Any] = {}
        self.fsm_states: list = []  # (state register, input indices that give its value)
        for lf in spec.get("leaves", []):
            self.methods[lf["name"]] = Method(name=lf["name"])
        for it in spec["items"]:
            if it["k"] == "method":
                self.methods[it["name"]] = Method(name=it["name"])
        for cn in spec.get("connects", []):
            c = Connect(_layout(cn["w"]), _layout(cn["rw"]))
            self.connects[cn["name"]] = c
            self.methods[cn["name"] + ".write"] = c.write
            self.methods[cn["name"] + ".read"] = c.read
        for al in spec.get("aliases", []):
            self.methods[al["name"]] = Method(name=al["name"])
        self.objs.update(self.methods)

    def inp(self, k):
        return self.inputs[k]

    # -- statements
    def block(self, m: TModule, stmts: list):
        for s in stmts:
            getattr(self, "s_" + s["k"])(m, s)

    def s_call(self, m, s):
        meth = self.methods[s["m"]]
        kw = {}
        if s.get("en") is not None:
            kw["enable_call"] = self.inp(s["en"])
        caller = Body.get()
        iw = len(meth.data_in.as_value())
        ow = len(meth.data_out.as_value())
        if iw > 0:
            argv = self.dins[s["arg"]] if s.get("arg") is not None else C(0, iw)
            ret = meth(m, d=argv, **kw)
        else:
            ret = meth(m, **kw)
        tup = caller.method_calls[meth][-1]
        res = None
        if ow > 0:
            res = Signal(ow, name=f"res{len(self.sites)}")
            m.d.top_comb += res.eq(ret.d)
        self.sites.append(SiteRec(caller, meth, tup, res, s, self.guard))

    def s_cond(self, m, s):
        parent = Body.get()
        before = len(parent.simultaneous_list)
        with condition(m, nonblocking=bool(s["nb"]), priority=bool(s["prio"])) as branch:
            for br in s["branches"]:
                ctx = branch(self.inp(br["c"])) if br["c"] is not None else branch()
                with ctx:
                    self.block(m, br["block"])
        branches = list(parent.simultaneous_list[before:])
        u = len(self.uses)
        for k, b in enumerate(branches):
            self.bodies[f"u{u}b{k}"] = b
        self.uses.append(UseRec(parent, branches, [br["c"] for br in s["branches"]], s["nb"], s["prio"], s))
        s["_use"] = u

    def _items(self, m, guard, items):
        prev = self.guard
        self.guard = g_and(prev, guard)
        for it in items:
            getattr(self, "s_" + it["k"])(m, it)
        self.guard = prev

    def s_if(self, m, s):
        guards = alt_guards(s)
        for i, alt in enumerate(s["alts"]):
            ctx = m.If(self.inp(alt["c"])) if i == 0 else (m.Else() if alt["c"] is None else m.Elif(self.inp(alt["c"])))
            with ctx:
                self._items(m, guards[i][0], alt["items"])

    def s_switch(self, m, s):
        guards = alt_guards(s)
        with m.Switch(Cat(*[self.inp(k) for k in s["sel"]])):
            for i, case in enumerate(s["cases"]):
                with (m.Default() if case["pat"] is None else m.Case(case["pat"])):
                    self._items(m, guards[i][0], case["items"])

    def s_fsm(self, m, s):
        guards = alt_guards(s)
        with m.FSM(name=f"fsm{len(self.fsm_states)}") as fsm:
            for i, st in enumerate(s["states"]):
                with m.State(f"S{i}"):
                    self._items(m, guards[i][0], st["items"])
        self.fsm_states.append((fsm.state, list(s["sel"])))

    def s_trans(self, m, s):
        t = Transaction(name=s["name"])
        self.objs[s["name"]] = t
        self.body_guard[s["name"]] = self.guard
        kw = {}
        if s.get("ready") is not None:
            kw["ready"] = self.inp(s["ready"])
        with t.body(m, **kw):
            self.bodies[s["name"]] = Body.get()
            self.block(m, s["block"])

    def s_method(self, m, s):
        meth = self.methods[s["name"]]
        kw: dict = {}
        if s.get("nx"):
            kw["nonexclusive"] = True
        ready = self.inp(s["ready"]) if s.get("ready") is not None else C(1)

        @def_method(m, meth, ready, **kw)
        def _():
            self.bodies[s["name"]] = Body.get()
            self.block(m, s["block"])

    def elaborate(self, platform):
        m = TModule()
        for lf in self.spec.get("leaves", []):
            ready = self.inp(lf["ready"]) if lf.get("ready") is not None else C(1)

            def mk(meth, ready, name):
                @def_method(m, meth, ready)
                def _():
                    self.bodies[name] = Body.get()

            mk(self.methods[lf["name"]], ready, lf["name"])
        for name, c in self.connects.items():
            m.submodules[name] = c
        for it in self.spec["items"]:
            getattr(self, "s_" + it["k"])(m, it)
        for al in self.spec.get("aliases", []):
            self.methods[al["name"]].provide(self.methods[al["target"]])
        for a, b in self.spec.get("simul", []):
            self.objs[a].simultaneous(self.objs[b])
        prio = {"U": Priority.UNDEFINED, "L": Priority.LEFT, "R": Priority.RIGHT}
        for a, b, p in self.spec.get("conflicts", []):
            self.objs[a].add_conflict(self.objs[b], prio[p])
        return m


@dataclass
class Built:
    spec: dict
    top: SimulTop
    dm: DependencyManager
    tm: TransactionManager
    fragment: Any = None
    tm_fragment: Any = None
    reject: Optional[str] = None
    reject_msg: str = ""
    sched_calls: list = field(default_factory=list)
    pre_bodies: list = field(default_factory=list)  # Body objects, canonical pre-merge order
    post_bodies: list = field(default_factory=list)  # pre_bodies + merged transaction bodies (canonical)
    body_id: dict = field(default_factory=dict)  # id(Body) -> canonical id
    name_of: dict = field(default_factory=dict)
    id_of: dict = field(default_factory=dict)
    site_tuples: list = field(default_factory=list)  # canonical site id -> (ctrl_path, arg_rec, enable_sig)
    n_user_sites: int = 0
    pre: dict = field(default_factory=dict)
    post: Optional[dict] = None
    groups: list = field(default_factory=list)
    info: dict = field(default_factory=dict)
    cfg: dict = field(default_factory=dict)
    edges: list = field(default_factory=list)
    porder: list = field(default_factory=list)
    post_trans: list = field(default_factory=list)
    post_meths: list = field(default_factory=list)


_PRIO = {Priority.UNDEFINED: "U", Priority.LEFT: "L", Priority.RIGHT: "R"}


def _path(cp, modmap):
    return modmap(cp.module), [[e.alt, e.par] for e in cp.path]


class RealCodeError(Exception):
    """the real library raised where a well-formed design must elaborate: an observation about the implementation"""


def build(spec: dict) -> Built:
    spec = json.loads(json.dumps(spec))  # private copy (the builder annotates statements)
    dm = DependencyManager()
    b = Built(spec, None, dm, None)  # type: ignore

    def recording_scheduler(method_map, gr, cc, porder):
        b.sched_calls.append((method_map, gr, cc, porder))
        return _schedulers.eager_deterministic_cc_scheduler(method_map, gr, cc, porder)

    with DependencyContext(dm):
        b.top = SimulTop(spec)
        b.tm = TransactionManager(recording_scheduler)
        try:
            b.fragment = Fragment.get(b.top, None)
        except Exception as e:  # noqa: BLE001 - the real code raised while the user circuit was elaborated
            raise RealCodeError(f"{type(e).__name__}: {' '.join(str(e).split())[:200]} (while elaborating the user circuit)") from e
        _extract_pre(b)
        try:
            b.tm_fragment = Fragment.get(b.tm, None)
        except Exception as e:  # noqa: BLE001 - any exception of the manager is an observation
            b.reject = classify_exception(e)
            b.reject_msg = " ".join(str(e).split())[:300]
            b.tm._MustUse__silence = True  # type: ignore
    if b.reject is None:
        _extract_post(b)
    _make_cfg(b)
    return b


def _flat_body(b: Built, body: Body, is_t: bool, modmap, site_of, rels, sims, inds) -> dict:
    mod, p = _path(body.ctrl_path, modmap)
    calls = []
    for mobj, cl in body.method_calls.items():
        callee = mobj._body
        for tup in cl:
            cm, cpth = _path(tup[0], modmap)
            calls.append({"c": b.body_id[id(callee)], "m": cm, "p": cpth, "s": site_of[id(tup)]})
    frels = []
    for r in rels:
        frels.append({"d": b.body_id.get(id(r.end if isinstance(r.end, Body) else r.end._body), 10**6), "p": _PRIO[r.priority],
                      "c": int(r.conflict), "rd": int(r.ready_dependent), "sl": int(r.silence_warning)})
    return {
        "t": int(is_t), "dp": {"m": mod, "p": p}, "do": b.body_id[id(body)], "nx": int(bool(body.nonexclusive)),
        "sc": int(bool(body.single_caller)), "val": None, "comb": "mux",
        "iw": len(body.data_in.as_value()), "ow": len(body.data_out.as_value()), "out": ["const", 0],
        "calls": calls, "rels": frels,
        "sim": [b.body_id[id(x if isinstance(x, Body) else x._body)] for x in sims],
        "ind": [b.body_id[id(x if isinstance(x, Body) else x._body)] for x in inds],
    }


def _extract_pre(b: Built):
    """the design as `TransactionManager.elaborate` will see it after moving the object-level relation
    lists onto the bodies (manager.py:464-473), read before the manager runs"""
    top = b.top
    tobjs = list(b.dm.dependencies.get(TransactionsKey(), []))
    mobjs = list(b.dm.dependencies.get(DefinedMethodsKey(), []))
    allo = sorted([(o._body, o, True) for o in tobjs] + [(o._body, o, False) for o in mobjs], key=lambda x: x[0].def_order)
    b.pre_bodies = [x[0] for x in allo]
    b.body_id = {id(x): i for i, x in enumerate(b.pre_bodies)}
    for name, body in top.bodies.items():
        if id(body) in b.body_id:
            b.name_of[b.body_id[id(body)]] = name
            b.id_of[name] = b.body_id[id(body)]
    for i, body in enumerate(b.pre_bodies):  # Connect's methods etc.
        if i not in b.name_of:
            for nm, mo in top.methods.items():
                if mo._body is body:
                    b.name_of[i] = nm
                    b.id_of[nm] = i
    uids = set()
    for body in b.pre_bodies:
        uids.add(body.ctrl_path.module)
        for calls in body.method_calls.values():
            for cp, _, _ in calls:
                uids.add(cp.module)
    ranks = {u: i for i, u in enumerate(sorted(uids))}
    b.info["nmods"] = len(ranks)
    modmap = lambda u: ranks.get(u, len(ranks))  # noqa: E731  (the manager's private TModule is created later: next rank)
    b.info["modmap"] = modmap
    # user sites in creation order
    b.site_tuples = [r.call_tuple for r in top.sites]
    b.n_user_sites = len(b.site_tuples)
    site_of = {id(t): i for i, t in enumerate(b.site_tuples)}
    # declarations made on methods defined by provide() are moved onto the body they alias (manager.py:464-473)
    provided = list(b.dm.dependencies.get(ProvidedMethodsKey(), []))
    fb = []
    for body, obj, is_t in allo:
        objs = [obj] + [p for p in provided if p._body is body and p is not obj]
        rels = list(body.relations) + [r for o in objs for r in o.relations]
        sims = list(body.simultaneous_list) + [x for o in objs for x in o.simultaneous_list]
        inds = list(body.independent_list) + [x for o in objs for x in o.independent_list]
        fb.append(_flat_body(b, body, is_t, modmap, site_of, rels, sims, inds))
    for al in top.spec.get("aliases", []):
        if al["target"] in b.id_of:
            b.id_of[al["name"]] = b.id_of[al["target"]]
    b.pre = {"bodies": fb, "trans": [b.body_id[id(o._body)] for o in tobjs], "meths": [b.body_id[id(o._body)] for o in mobjs]}


def _extract_post(b: Built):
    tm = b.tm
    n = len(b.pre_bodies)
    pre_ids = dict(b.body_id)
    merged = [t._body for t in tm.transactions if id(t._body) not in pre_ids]
    members = {}
    for g in merged:
        members[id(g)] = sorted(pre_ids[id(mo._body)] for mo in g.method_calls.keys())
    merged_sorted = sorted(merged, key=lambda g: members[id(g)])
    creation_rank = {id(g): k for k, g in enumerate(sorted(merged, key=lambda g: g.def_order))}
    for k, g in enumerate(merged_sorted):
        b.body_id[id(g)] = n + k
        b.name_of[n + k] = "G" + "_".join(str(x) for x in members[id(g)])
    b.groups = [members[id(g)] for g in merged_sorted]
    b.post_bodies = b.pre_bodies + merged_sorted
    modmap = b.info["modmap"]
    # sites of merged transactions: (group, callee) order; the real paths must be [[0,creation rank],[0,j]]
    form_ok = True
    site_of = {id(t): i for i, t in enumerate(b.site_tuples)}
    renum = {}
    for k, g in enumerate(merged_sorted):
        cl = []
        for j, (mo, calls) in enumerate(g.method_calls.items()):
            if len(calls) != 1:
                form_ok = False
            for tup in calls:
                cl.append((pre_ids[id(mo._body)], tup, j))
        if g.ctrl_path.path != ():
            form_ok = False
        for jj, (callee, tup, j) in enumerate(sorted(cl, key=lambda x: x[0])):
            site_of[id(tup)] = len(b.site_tuples)
            b.site_tuples.append(tup)
            real = [[e.alt, e.par] for e in tup[0].path]
            if real != [[0, creation_rank[id(g)]], [0, j]] or tup[0].module != g.ctrl_path.module:
                form_ok = False
            renum[id(tup)] = [[0, k], [0, jj]]
    b.info["merged_path_form"] = form_ok
    live_t = [t._body for t in tm.transactions]
    live_m = [m._body for m in tm.methods]
    live = {id(x) for x in live_t + live_m}
    fb = []
    for body in b.post_bodies:
        is_t = any(body is x for x in live_t)
        fbody = _flat_body(b, body, is_t, modmap, site_of, list(body.relations), [], [])
        if id(body) in renum or any(id(t) in renum for cl in body.method_calls.values() for t in cl):
            for c, tup in zip(fbody["calls"], [t for cl in body.method_calls.values() for t in cl]):
                c["p"] = renum[id(tup)]
        if id(body) not in live:
            # a transaction dropped by `_simultaneous` without being joined (simultaneous with an uncalled
            # method): in neither list of the manager; kept as an uncalled, call-free method (never runs)
            fbody["t"] = 0
            fbody["calls"] = []
            fbody["dropped"] = 1
        fbody["calls"].sort(key=lambda c: c["s"])
        fb.append(fbody)
    bid = lambda x: b.body_id[id(x)]  # noqa: E731
    dropped = [i for i, x in enumerate(b.post_bodies) if id(x) not in live]
    b.post_trans = sorted(bid(x) for x in live_t)
    b.post_meths = sorted([bid(x) for x in live_m] + dropped)
    if b.sched_calls:
        mm, cgr, _, porder = b.sched_calls[0]
    else:
        mm = MethodMap(tm.transactions, tm.methods)
        cgr, porder = TransactionManager._conflict_graph(mm)
    order = sorted(porder.keys(), key=lambda t: porder[t])
    b.porder = [bid(t) for t in order]
    b.edges = sorted({(min(bid(a), bid(x)), max(bid(a), bid(x))) for a, adj in cgr.items() for x in adj})
    b.post = {"bodies": fb, "trans": b.post_trans, "meths": b.post_meths, "porder": b.porder}


def _static_callees(spec: dict) -> dict:
    """name of user body / branch -> set of bodies it reaches in the static call tree (spec only)"""
    direct: dict[str, list] = {}
    blocks: dict[str, list] = {}

    def walk(name, block, ctr):
        direct.setdefault(name, [])
        for s in block:
            if s["k"] == "call":
                direct[name].append(s["m"])
            elif s["k"] == "cond":
                u = s["_use"]
                for k, br in enumerate(s["branches"]):
                    walk(f"u{u}b{k}", br["block"], ctr)
            elif s["k"] == "trans":
                walk(s["name"], s["block"], ctr)
            else:
                for blk in inner_blocks(s):
                    walk(name, blk, ctr)

    for it, _ in flat_items(spec):
        walk(it["name"], it["block"], None)
    out = {}

    def reach(n, seen):
        for m in direct.get(n, []):
            if m not in seen:
                seen.add(m)
                reach(m, seen)
        return seen

    for n in direct:
        out[n] = reach(n, set())
    return out


def _make_cfg(b: Built):
    """configuration line for the Lean driver (the real pre-/post-merge designs plus the description of
    how the free inputs drive `ready`/`enable_call`/arguments) and the static tables of the monitors"""
    top, spec = b.top, b.spec
    n = len(b.pre_bodies)
    rdy: list = [["one"]] * n
    rdy = [list(x) for x in rdy]

    def setr(name, k):
        if name in b.id_of:
            e = g_and(top.body_guard.get(name), ["in", k] if k is not None else None)
            if e is not None:
                rdy[b.id_of[name]] = e

    for lf in spec.get("leaves", []):
        setr(lf["name"], lf.get("ready"))

    def walk(block):
        for s in block:
            if s["k"] in ("trans", "method"):
                setr(s["name"], s.get("ready"))
                walk(s["block"])
            elif s["k"] == "cond":
                for br in s["branches"]:
                    walk(br["block"])

    walk([it for it, _ in flat_items(spec)])
    uses = []
    for u, ur in enumerate(top.uses):
        brs = [b.body_id[id(x)] for x in ur.branches]
        uses.append({"p": b.body_id[id(ur.parent)], "br": brs, "conds": [(-1 if c is None else c) for c in ur.conds],
                     "nb": int(ur.nb), "prio": int(ur.prio)})
    en = []
    args = []
    for r in top.sites:
        en.append(g_and(r.guard, ["in", r.stmt["en"]] if r.stmt.get("en") is not None else None) or ["one"])
        iw = len(r.method_obj.data_in.as_value())
        args.append([r.stmt["arg"], iw] if (iw > 0 and r.stmt.get("arg") is not None) else [-1, iw])
    pairs = []
    for a, c in spec.get("simul", []):
        pairs.append([b.id_of[a], b.id_of[c]])
    conn = []
    for cn in spec.get("connects", []):
        w, r = b.id_of[cn["name"] + ".write"], b.id_of[cn["name"] + ".read"]
        conn.append({"w": w, "r": r})
        pairs.append([w, r])
    b.cfg = {
        "pre": b.pre, "post": b.post, "groups": b.groups if b.post else None, "rdy": rdy, "uses": uses, "en": en,
        "args": args, "pairs": pairs, "conn": conn, "nin": spec["nin"], "dins": spec.get("dins", []),
        "nus": b.n_user_sites,
    }


def cfg_line(b: Built, full: bool = False) -> str:
    """`full`: also evaluate the (expensive) validator of the theory, `Bridge.staticOk`, on this design"""
    return json.dumps({**b.cfg, "full": int(full)}, separators=(",", ":"))


def summary_line(b: Built, full: bool = False) -> str:
    """first observation line, in the format the Lean driver answers the cfg line with"""
    if b.reject is not None:
        return f"reject kind={b.reject}"
    edges = ",".join(f"{a}-{c}" for a, c in b.edges) if b.edges else "-"
    groups = "|".join(",".join(str(x) for x in g) for g in b.groups) if b.groups else "-"
    return (f"ok tr={_lst(b.post_trans)} me={_lst(b.post_meths)} groups={groups} merge=1 cond=1 cgr={edges} "
            f"vo=1 hyp={'1' if full else '-'} shape12=1 nbr=1 shape13=1")


def _lst(v) -> str:
    return ",".join(str(x) for x in v) if v else "-"


# ------------------------------------------------------------------------------------ simulation
@dataclass
class Obs:
    inputs: list  # bits of i0..
    dvals: list  # values of d0..
    ready: list  # per post-merge body
    run: list
    runnable: dict  # transaction id -> bit
    en: list  # per site (user + merged)
    arg: list  # per site
    din: dict  # method id -> data_in
    res: list  # per user site (0 when no output)


def valuations(spec: dict, rng: random.Random, n_random: int, max_bits: int = MAX_EXHAUSTIVE_BITS):
    """all valuations of the 1-bit inputs when there are at most `max_bits` of them, else random ones plus
    all-zeros / all-ones / one-hot / one-cold; data inputs are drawn at random for every valuation"""
    nin = spec["nin"]
    widths = spec.get("dins", [])
    out = []

    def data():
        return [rng.randrange(1 << w) if w else 0 for w in widths]

    if nin <= max_bits:
        for x in range(1 << nin):
            out.append(([(x >> k) & 1 for k in range(nin)], data()))
        return out, True
    out.append(([0] * nin, data()))
    out.append(([1] * nin, data()))
    for k in range(nin):
        out.append(([int(j == k) for j in range(nin)], data()))
        out.append(([int(j != k) for j in range(nin)], data()))
    for _ in range(n_random):
        p = rng.choice([0.5, 0.7, 0.85, 0.95])
        out.append(([int(rng.random() < p) for _ in range(nin)], data()))
    return out, False


def simulate(b: Built, vals: list) -> list[Obs]:
    assert b.reject is None
    top = b.top
    m = Module()
    m.submodules.main_module = b.fragment
    m.submodules.transactionManager = b.tm_fragment
    insigs = list(top.inputs) + list(top.dins)
    total = sum(len(s) for s in insigs)
    bus = Signal(max(total, 1), name="inbus")
    lo = 0
    for sig in insigs:
        m.d.comb += sig.eq(bus[lo : lo + len(sig)])
        lo += len(sig)
    bodies = b.post_bodies
    nb = len(bodies)
    ts = b.post_trans
    mids = [i for i in range(nb) if i not in set(ts)]
    sigs: list = []
    sigs += [x.ready for x in bodies]
    sigs += [x.run for x in bodies]
    sigs += [bodies[i].runnable for i in ts]
    sigs += [t[2] for t in b.site_tuples]
    sigs += [t[1].as_value() for t in b.site_tuples]
    sigs += [bodies[i].data_in.as_value() for i in mids]
    sigs += [(r.res if r.res is not None else C(0, 0)) for r in top.sites]
    widths = [len(x) for x in sigs]
    allobs = Signal(max(sum(widths), 1), name="obsbus")
    m.d.comb += allobs.eq(Cat(*sigs))
    sim = Simulator(m)
    result: list[Obs] = []
    ns = len(b.site_tuples)

    async def tb(ctx):
        for bits, dvals in vals:
            x = 0
            lo = 0
            for sig, v in zip(insigs, list(bits) + list(dvals)):
                x |= (v & ((1 << len(sig)) - 1)) << lo
                lo += len(sig)
            ctx.set(bus, x)
            for sig, sel in top.fsm_states:
                ctx.set(sig, sum(bits[k] << i for i, k in enumerate(sel)) & ((1 << len(sig)) - 1))
            await ctx.delay(1e-6)
            packed = ctx.get(allobs)
            out = []
            for w in widths:
                out.append(packed & ((1 << w) - 1))
                packed >>= w
            it = iter(out)
            take = lambda k: [next(it) for _ in range(k)]  # noqa: E731
            ready = take(nb)
            run = take(nb)
            rn = take(len(ts))
            en = take(ns)
            arg = take(ns)
            din = take(len(mids))
            res = take(len(top.sites))
            result.append(Obs(list(bits), list(dvals), ready, run, dict(zip(ts, rn)), en, arg, dict(zip(mids, din)), res))

    sim.add_testbench(tb)
    sim.run()
    return result


def _bits(l) -> str:
    return "".join(str(int(x)) for x in l) if l else "-"


def _nums(l) -> str:
    return ",".join(str(int(x)) for x in l) if l else "-"


def val_line(bits, dvals) -> str:
    return f"v i={_bits(bits)} d={_nums(dvals)}"


def impl_line(b: Built, o: Obs) -> str:
    ts = b.post_trans
    mids = sorted(o.din)
    # data is compared only where the property speaks about it: `data_in` of a method that runs, the result a
    # running caller receives (values on wires of bodies that do not run are don't-cares)
    din = [(o.din[m] if o.run[m] else 0) for m in mids]
    res = [(o.res[i] if o.run[b.body_id[id(r.caller)]] else 0) for i, r in enumerate(b.top.sites)]
    return (f"rdy={_bits(o.ready)} en={_bits(o.en)} rn={_bits([o.runnable[t] for t in ts])} run={_bits(o.run)} "
            f"arg={_nums(o.arg)} din={_nums(din)} res={_nums(res)} "
            f"fix=1 hx=1 cons=1 hyp=1 link=1 der=1 dflt=1")


# ------------------------------------------------------------------------------------ generator
class _Gen:
    def __init__(self, rng: random.Random, P: dict):
        self.rng = rng
        self.P = P
        self.nin = 0
        self.dins: list[int] = []
        self.leaves: list[dict] = []
        self.connects: list[dict] = []
        self.items: list[dict] = []
        self.simul: list[list] = []
        self.aliases: list[dict] = []
        self.conflicts: list[list] = []
        self.ntrans = 0
        self.nmeth = 0

    def inp(self) -> int:
        self.nin += 1
        return self.nin - 1

    def maybe_inp(self, p: float) -> Optional[int]:
        return self.inp() if self.rng.random() < p else None

    def din(self, w: int) -> int:
        self.dins.append(w)
        return len(self.dins) - 1

    def leaf(self, p_ready: Optional[float] = None) -> str:
        name = f"x{len(self.leaves)}"
        self.leaves.append({"name": name, "ready": self.maybe_inp(self.P["p_leaf_ready"] if p_ready is None else p_ready)})
        return name

    def tname(self) -> str:
        self.ntrans += 1
        return f"T{self.ntrans - 1}"

    def mname(self) -> str:
        self.nmeth += 1
        return f"M{self.nmeth - 1}"

    def calls(self, lo: int, hi: int, p_en: float, pool: Optional[list] = None, used: Optional[set] = None) -> list:
        """`lo..hi` calls of fresh leaves (or, with probability, of a leaf from `pool` not yet in `used`)"""
        out = []
        used = used if used is not None else set()
        for _ in range(self.rng.randint(lo, hi)):
            cand = [x for x in (pool or []) if x not in used]
            if cand and self.rng.random() < self.P["p_share"]:
                nm = self.rng.choice(cand)
            else:
                nm = self.leaf()
                if pool is not None:
                    pool.append(nm)
            used.add(nm)
            out.append({"k": "call", "m": nm, "en": self.maybe_inp(p_en), "arg": None})
        return out

    def cond(self, depth: int, allow_prio: bool = True) -> dict:
        rng, P = self.rng, self.P
        n = rng.choice(P["n_branches"])
        nb = int(rng.random() < P["p_nb"])
        prio = int(allow_prio and rng.random() < P["p_prio"])
        has_def = rng.random() < P["p_default"]
        pool: list = []  # leaves shared among the branches of this condition
        branches = []
        shared_cond = None
        for k in range(n):
            if shared_cond is not None and rng.random() < P["p_overlap"]:
                c = shared_cond  # two branches guarded by the same input: always overlapping
            else:
                c = self.inp()
                shared_cond = c
            used: set = set()
            block = self.calls(0, 2, P["p_en_branch"], pool, used)
            if depth < P["max_nest"] and rng.random() < P["p_nest"]:
                block.insert(rng.randint(0, len(block)), self.cond(depth + 1))
            branches.append({"c": c, "block": block})
        if has_def:
            used = set()
            branches.append({"c": None, "block": self.calls(0, 1, 0.0, pool, used)})
        return {"k": "cond", "nb": nb, "prio": prio, "branches": branches}

    def spec(self, tag: str) -> dict:
        return {"nin": self.nin, "dins": self.dins, "leaves": self.leaves, "connects": self.connects, "items": self.items,
                "simul": self.simul, "aliases": self.aliases, "conflicts": self.conflicts, "tag": tag}


DEFAULT_P = {
    "p_leaf_ready": 0.7, "p_share": 0.4, "n_branches": [1, 2, 2, 3, 3, 4], "p_nb": 0.4, "p_prio": 0.5, "p_default": 0.35,
    "p_overlap": 0.15, "p_en_branch": 0.15, "max_nest": 1, "p_nest": 0.25, "p_parent_ready": 0.8,
}


def gen_c12(rng: random.Random, kind: str, P: Optional[dict] = None) -> dict:
    """kinds: basic (transaction parent), method1 (condition in a method with one caller), methodN (several
    callers), nested, two (two conditions in one body), free (random mixture, plus bystander transactions)"""
    P = {**DEFAULT_P, **(P or {})}
    g = _Gen(rng, P)
    if kind == "free":
        kind = rng.choice(["basic", "basic", "method1", "methodN", "nested", "two", "chain", "deep", "guardcall", "three"])
    if kind == "nested":
        g.P = {**P, "p_nest": 0.9, "max_nest": rng.choice([1, 2]), "n_branches": [1, 2, 2, 3]}
    else:
        g.P = {**P, "p_nest": 0.12}
    if kind == "chain":
        _gen_chain(g, rng, P)
    elif kind == "deep":
        _gen_deep(g, rng, P)
    elif kind == "guardcall":
        _gen_guardcall(g, rng, P)
    elif kind == "three":
        # three condition() blocks in one body: every merged transaction joins four bodies (at most one of the
        # conditions has priority: two priority conditions in one body are rejected)
        g.P = {**g.P, "p_nest": 0.0, "n_branches": [1, 2, 2]}
        blk = g.calls(0, 1, 0.2)
        prio_used = False
        for _ in range(3):
            c = g.cond(0, allow_prio=not prio_used)
            prio_used = prio_used or bool(c["prio"])
            blk.insert(rng.randint(0, len(blk)), c)
        if rng.random() < 0.6:
            g.items.append({"k": "trans", "name": g.tname(), "ready": g.maybe_inp(P["p_parent_ready"]), "block": blk})
        else:
            mn = g.mname()
            g.items.append({"k": "method", "name": mn, "ready": g.maybe_inp(0.5), "nx": 0, "block": blk})
            g.items.append({"k": "trans", "name": g.tname(), "ready": g.maybe_inp(P["p_parent_ready"]),
                            "block": [{"k": "call", "m": mn, "en": g.maybe_inp(0.4), "arg": None}]})
    elif kind in ("basic", "nested", "two"):
        blk = g.calls(0, 2, 0.2)
        blk.insert(rng.randint(0, len(blk)), g.cond(0))
        if kind == "two":
            blk.insert(rng.randint(0, len(blk)), g.cond(0, allow_prio=not any(s["k"] == "cond" and s["prio"] for s in blk)))
        g.items.append({"k": "trans", "name": g.tname(), "ready": g.maybe_inp(P["p_parent_ready"]), "block": blk})
    else:
        mn = g.mname()
        blk = g.calls(0, 2, 0.2)
        blk.insert(rng.randint(0, len(blk)), g.cond(0))
        g.items.append({"k": "method", "name": mn, "ready": g.maybe_inp(0.6), "nx": 0, "block": blk})
        ncall = 1 if kind == "method1" else rng.choice([2, 2, 3])
        for _ in range(ncall):
            cb = g.calls(0, 1, 0.2)
            cb.insert(rng.randint(0, len(cb)), {"k": "call", "m": mn, "en": g.maybe_inp(0.5), "arg": None})
            g.items.append({"k": "trans", "name": g.tname(), "ready": g.maybe_inp(P["p_parent_ready"]), "block": cb})
    if rng.random() < 0.3:  # an unrelated bystander transaction
        g.items.append({"k": "trans", "name": g.tname(), "ready": g.maybe_inp(0.8), "block": g.calls(0, 2, 0.3)})
    return g.spec(f"c12:{kind}")


def _gen_chain(g: "_Gen", rng: random.Random, P: dict):
    """the condition-hosting method is reached through a call chain of 2-3 calls (transaction -> wrapper methods ->
    host); each link is conditional (`enable_call`) with some probability, at least one link usually is"""
    host = g.mname()
    blk = g.calls(0, 1, 0.2)
    blk.insert(rng.randint(0, len(blk)), g.cond(0))
    g.items.append({"k": "method", "name": host, "ready": g.maybe_inp(0.5), "nx": 0, "block": blk})
    _chain_above(g, rng, P, host, [2, 2, 3])


def _gen_deep(g: "_Gen", rng: random.Random, P: dict):
    """a branch of a condition() in method `outer` calls (through one or two plain methods) a method `leaf` that
    contains a condition() of its own; `outer` is reached through a call chain with conditional links"""
    g.P = {**g.P, "p_nest": 0.0, "n_branches": [1, 2, 2]}
    leaf = g.mname()
    blk = g.calls(0, 1, 0.0)
    lc = g.cond(0)
    blk.insert(rng.randint(0, len(blk)), lc)
    g.items.append({"k": "method", "name": leaf, "ready": g.maybe_inp(0.4), "nx": 0, "block": blk})
    callee = leaf
    for _ in range(rng.choice([1, 1, 2])):
        mid = g.mname()
        mb = g.calls(0, 1, 0.0)
        mb.insert(rng.randint(0, len(mb)), {"k": "call", "m": callee, "en": None, "arg": None})
        g.items.append({"k": "method", "name": mid, "ready": g.maybe_inp(0.4), "nx": 0, "block": mb})
        callee = mid
    outer = g.mname()
    oc = g.cond(0, allow_prio=not lc["prio"])  # two priority conditions in one merged transaction are rejected
    hit = rng.sample(range(len(oc["branches"])), rng.randint(1, len(oc["branches"])))
    for k in hit:
        bb = oc["branches"][k]["block"]
        bb.insert(rng.randint(0, len(bb)), {"k": "call", "m": callee, "en": None, "arg": None})
    ob = g.calls(0, 1, 0.0)
    ob.insert(rng.randint(0, len(ob)), oc)
    g.items.append({"k": "method", "name": outer, "ready": g.maybe_inp(0.4), "nx": 0, "block": ob})
    _chain_above(g, rng, P, outer, [1, 1, 2], one_top=True)


def _gen_guardcall(g: "_Gen", rng: random.Random, P: dict):
    """the condition-hosting method is called from inside an FSM state / Switch case / If alternative written in the
    body of a transaction (or of a wrapper method called by a transaction)"""
    g.P = {**g.P, "p_nest": 0.0}
    host = g.mname()
    blk = g.calls(0, 1, 0.0)
    blk.insert(rng.randint(0, len(blk)), g.cond(0))
    g.items.append({"k": "method", "name": host, "ready": g.maybe_inp(0.5), "nx": 0, "block": blk})
    form = rng.choice(["fsm", "fsm", "fsm", "switch", "if"])
    nalt = rng.choice([1, 2, 2, 3])
    alts = [g.calls(0, 1, 0.0) for _ in range(nalt)]
    alts[rng.randrange(nalt)].append({"k": "call", "m": host, "en": g.maybe_inp(0.15), "arg": None})
    if form == "if":
        st = {"k": "if", "alts": [{"c": g.inp(), "items": alts[i]} for i in range(nalt)]}
        if nalt > 1 and rng.random() < 0.4:
            st["alts"][-1]["c"] = None
    else:
        sel = [g.inp() for _ in range(1 if nalt <= 2 else 2)]
        if form == "switch":
            st = {"k": "switch", "sel": sel, "cases": [{"pat": i, "items": alts[i]} for i in range(nalt)]}
            if nalt > 1 and rng.random() < 0.4:
                st["cases"][-1]["pat"] = None
        else:
            st = {"k": "fsm", "sel": sel, "states": [{"items": alts[i]} for i in range(nalt)]}
    body = g.calls(0, 1, 0.2)
    body.insert(rng.randint(0, len(body)), st)
    if rng.random() < 0.3:  # the control structure is in a wrapper method
        wn = g.mname()
        g.items.append({"k": "method", "name": wn, "ready": g.maybe_inp(0.5), "nx": 0, "block": body})
        body = [{"k": "call", "m": wn, "en": g.maybe_inp(0.3), "arg": None}]
    g.items.append({"k": "trans", "name": g.tname(), "ready": g.maybe_inp(P["p_parent_ready"]), "block": body})


def _chain_above(g: "_Gen", rng: random.Random, P: dict, host: str, link_choices: list, one_top: bool = False):
    nlinks = rng.choice(link_choices)
    cond_links = [rng.random() < 0.45 for _ in range(nlinks)]
    if not any(cond_links) and rng.random() < 0.85:
        cond_links[rng.randrange(nlinks)] = True
    callee = host
    for lvl in range(nlinks - 1):  # wrapper methods, innermost first
        wn = g.mname()
        wb = g.calls(0, 1, 0.2)
        wb.insert(rng.randint(0, len(wb)), {"k": "call", "m": callee, "en": (g.inp() if cond_links[lvl] else None), "arg": None})
        g.items.append({"k": "method", "name": wn, "ready": g.maybe_inp(0.5), "nx": 0, "block": wb})
        callee = wn
    for k in range(1 if one_top else rng.choice([1, 1, 2])):
        cb = g.calls(0, 1, 0.2)
        en = g.inp() if (cond_links[-1] if k == 0 else rng.random() < 0.4) else None
        cb.insert(rng.randint(0, len(cb)), {"k": "call", "m": callee, "en": en, "arg": None})
        g.items.append({"k": "trans", "name": g.tname(), "ready": g.maybe_inp(P["p_parent_ready"]), "block": cb})


def gen_c13(rng: random.Random, kind: str, P: Optional[dict] = None) -> dict:
    """kinds: connect (w writers x r readers of one Connect, callers also call other methods),
    connect2 (two Connects chained through a transaction), tt (T.simultaneous(T')), mm (M.simultaneous(M')),
    tm (T.simultaneous(M)), free"""
    P = {**DEFAULT_P, **(P or {})}
    g = _Gen(rng, P)
    if kind == "free":
        kind = rng.choice(["connect", "connect", "connect2", "tt", "mm", "tm", "nested", "half", "guarded", "alias", "big"])
    if kind == "nested":
        # what condition() builds, written by hand: a transaction nested in method M and declared simultaneous
        # with M (one or two nesting levels, with and without callees); M is reached through a call chain of 1-3
        # calls with conditional links at any level
        host = g.mname()
        n0, n1 = g.tname(), None
        inner = g.calls(0, 1, 0.0) if rng.random() < 0.5 else []
        if rng.random() < 0.35:
            # the nested transaction calls (through a plain method) another method that hosts a nested
            # simultaneous transaction of its own
            leaf2, mid, n2 = g.mname(), g.mname(), g.tname()
            g.items.append({"k": "method", "name": leaf2, "ready": g.maybe_inp(0.4), "nx": 0, "block": [
                {"k": "trans", "name": n2, "ready": g.maybe_inp(0.6), "block": (g.calls(0, 1, 0.0) if rng.random() < 0.5 else [])}]})
            g.items.append({"k": "method", "name": mid, "ready": g.maybe_inp(0.4), "nx": 0,
                            "block": [{"k": "call", "m": leaf2, "en": None, "arg": None}]})
            g.simul.append([leaf2, n2])
            inner.append({"k": "call", "m": mid, "en": None, "arg": None})
        if rng.random() < 0.5:
            n1 = g.tname()
            inner.insert(rng.randint(0, len(inner)), {"k": "trans", "name": n1, "ready": g.maybe_inp(0.6),
                                                      "block": (g.calls(0, 1, 0.0) if rng.random() < 0.5 else [])})
        blk = g.calls(0, 1, 0.2)
        blk.insert(rng.randint(0, len(blk)), {"k": "trans", "name": n0, "ready": g.maybe_inp(0.6), "block": inner})
        g.items.append({"k": "method", "name": host, "ready": g.maybe_inp(0.5), "nx": 0, "block": blk})
        g.simul.append([host, n0])
        if n1 is not None:
            g.simul.append([n0, n1])
        _chain_above(g, rng, P, host, [1, 2, 2, 3])
        return g.spec(f"c13:{kind}")

    def caller(calls: list, lo=0, hi=2) -> str:
        blk = g.calls(lo, hi, 0.25)
        for c in calls:
            blk.insert(rng.randint(0, len(blk)), c)
        nm = g.tname()
        g.items.append({"k": "trans", "name": nm, "ready": g.maybe_inp(P["p_parent_ready"]), "block": blk})
        return nm

    def connect() -> str:
        nm = f"cn{len(g.connects)}"
        g.connects.append({"name": nm, "w": rng.choice([0, 1, 2, 3]), "rw": rng.choice([0, 0, 1, 2])})
        return nm

    def ccall(cn: str, side: str) -> dict:
        c = next(x for x in g.connects if x["name"] == cn)
        w = c["w"] if side == "write" else c["rw"]
        return {"k": "call", "m": f"{cn}.{side}", "en": None, "arg": (g.din(w) if w > 0 else None)}

    if kind == "alias":
        # simultaneous() declared on methods that get their definition through provide() (both sides / one side)
        defs, names = [], []
        for side in range(2):
            mn = g.mname()
            g.items.append({"k": "method", "name": mn, "ready": g.maybe_inp(0.6), "nx": 0, "block": g.calls(0, 1, 0.2)})
            defs.append(mn)
        both = rng.random() < 0.6
        for side in range(2):
            if both or side == 0:
                an = f"A{len(g.aliases)}"
                g.aliases.append({"name": an, "target": defs[side]})
                names.append(an)
            else:
                names.append(defs[side])
        for side in range(2):
            for _ in range(rng.choice([1, 1, 2])):
                via = names[side] if rng.random() < 0.6 else defs[side]
                caller([{"k": "call", "m": via, "en": None, "arg": None}], 0, 1)
        g.simul.append(names if rng.random() < 0.5 else names[::-1])
    elif kind == "big":
        # simultaneity components of 4-5 transactions: 3-4 Connects in series, or a star around one transaction;
        # no callee is shared between the members
        ncn = rng.choice([3, 3, 4])
        cns = [connect() for _ in range(ncn)]
        ends: list = [[] for _ in range(ncn + 1)]
        if rng.random() < 0.5:  # series t0 -cn0- t1 -cn1- t2 ...
            for i, cn in enumerate(cns):
                a, c = ("write", "read") if rng.random() < 0.5 else ("read", "write")
                ends[i].append(ccall(cn, a))
                ends[i + 1].append(ccall(cn, c))
        else:  # star: member 0 is linked to every other member
            for i, cn in enumerate(cns):
                a, c = ("write", "read") if rng.random() < 0.5 else ("read", "write")
                ends[0].append(ccall(cn, a))
                ends[i + 1].append(ccall(cn, c))
        order = list(range(ncn + 1))
        rng.shuffle(order)
        for i in order:
            caller(ends[i], 0, 1)
    elif kind == "conflict":
        # must be rejected: two simultaneous bodies with an add_conflict between them (both would be run by one
        # merged transaction)
        p = rng.choice(["U", "L", "R"])
        if rng.random() < 0.5:
            a = caller([], 0, 1)
            c = caller([], 0, 1)
        else:
            names = []
            for side in range(2):
                mn = g.mname()
                g.items.append({"k": "method", "name": mn, "ready": g.maybe_inp(0.6), "nx": 0, "block": g.calls(0, 1, 0.2)})
                caller([{"k": "call", "m": mn, "en": None, "arg": None}], 0, 1)
                names.append(mn)
            a, c = names
        g.simul.append([a, c] if rng.random() < 0.5 else [c, a])
        g.conflicts.append([a, c, p] if rng.random() < 0.5 else [c, a, p])
    elif kind == "half":
        # one end of a simultaneous method pair has no caller at all: the callers of the other end can never run
        if rng.random() < 0.6:
            cn = connect()
            side = rng.choice(["write", "read"])
            for _ in range(rng.choice([1, 1, 2])):
                caller([ccall(cn, side)])
            if rng.random() < 0.5:  # next to a fully connected Connect
                c2 = connect()
                caller([ccall(c2, "write")])
                caller([ccall(c2, "read")])
        else:
            names = []
            for side in range(2):
                mn = g.mname()
                g.items.append({"k": "method", "name": mn, "ready": g.maybe_inp(0.6), "nx": 0, "block": g.calls(0, 1, 0.2)})
                names.append(mn)
            for _ in range(rng.choice([1, 2])):
                caller([{"k": "call", "m": names[0], "en": None, "arg": None}], 0, 1)
            g.simul.append(names if rng.random() < 0.5 else names[::-1])
    elif kind == "guarded":
        # callers of the two ends are transactions written inside If/Elif/Else, Switch/Case/Default or FSM states
        cn = connect()
        bodies = []
        for side in ["write"] * rng.choice([1, 1, 2]) + ["read"] * rng.choice([1, 1, 2]):
            caller([ccall(cn, side)])
            bodies.append(g.items.pop())
        rng.shuffle(bodies)
        n_guarded = rng.randint(1, len(bodies))
        guarded, free = bodies[:n_guarded], bodies[n_guarded:]
        form = rng.choice(["if", "if", "switch", "fsm"])
        nalt = rng.choice([1, 2, 2, 3])
        groups: list = [[] for _ in range(nalt)]
        for x in guarded:
            groups[rng.randrange(nalt)].append(x)
        if form == "if":
            alts = [{"c": g.inp(), "items": groups[i]} for i in range(nalt)]
            if nalt > 1 and rng.random() < 0.5:
                alts[-1]["c"] = None
            g.items.append({"k": "if", "alts": alts})
        else:
            nb = 1 if nalt <= 2 else 2
            sel = [g.inp() for _ in range(nb)]
            if form == "switch":
                cases = [{"pat": i, "items": groups[i]} for i in range(nalt)]
                if nalt > 1 and rng.random() < 0.5:
                    cases[-1]["pat"] = None
                g.items.append({"k": "switch", "sel": sel, "cases": cases})
            else:
                g.items.append({"k": "fsm", "sel": sel, "states": [{"items": groups[i]} for i in range(nalt)]})
        g.items += free
    elif kind == "connect":
        cn = connect()
        for _ in range(rng.choice([1, 1, 2, 3])):
            caller([ccall(cn, "write")])
        for _ in range(rng.choice([1, 1, 2, 3])):
            caller([ccall(cn, "read")])
    elif kind == "connect2":
        a, c = connect(), connect()
        caller([ccall(a, "write")])
        caller([ccall(a, "read"), ccall(c, "write")])
        for _ in range(rng.choice([1, 2])):
            caller([ccall(c, "read")])
    elif kind == "tt":
        a = caller([], 0, 2)
        c = caller([], 0, 2)
        g.simul.append([a, c])
        if rng.random() < 0.5:
            d = caller([], 0, 1)
            g.simul.append([c, d])
    elif kind in ("mm", "tm"):
        names = []
        for side in range(2):
            if kind == "tm" and side == 0:
                names.append(caller([], 0, 2))
                continue
            mn = g.mname()
            g.items.append({"k": "method", "name": mn, "ready": g.maybe_inp(0.6), "nx": 0, "block": g.calls(0, 2, 0.2)})
            for _ in range(rng.choice([1, 1, 2])):
                caller([{"k": "call", "m": mn, "en": None, "arg": None}], 0, 1)
            names.append(mn)
        g.simul.append(names)
    if rng.random() < 0.3:
        g.items.append({"k": "trans", "name": g.tname(), "ready": g.maybe_inp(0.8), "block": g.calls(0, 2, 0.3)})
    return g.spec(f"c13:{kind}")
