"""`run_simul(ctx, pid, …)`: the check shared by C12 (`condition()`) and C13 (`simultaneous()`, `Connect`).

Per case: spec (simulgen) -> REAL circuit (real `condition`/`Connect`/`simultaneous`, real
`TransactionManager`) -> pre-/post-merge extraction -> pysim over input valuations -> property
monitor of `pid` on the observations -> the same case (real pre-merge design, description of the
inputs, real post-merge design for comparison) and the valuations go to the Lean driver
`Driver/<pid>.lean`, whose answers (model of `_simultaneous`, scheduler equations with derived
enables, shape hypotheses of the theorems) are compared line by line with the real circuit.
"""

from __future__ import annotations

import json
import multiprocessing as mp
import os
import random
import time
from concurrent.futures import ThreadPoolExecutor
from typing import Callable, Optional

from ..common import Check, InfraError, LEAN, CORPUS, run_cmd, first_diff
from . import simulgen as sg

N_FULL_VALS = 6  # valuations per design on which the (expensive) per-cycle validator of the theory is evaluated (thorough)


SETTLE_TIMEOUT_S = 20  # CPU seconds


class _Unsettled(Exception):
    pass


def _with_watchdog(seconds: int, fn, *args):
    """run `fn(*args)` under a watchdog on the CPU time of this process (ITIMER_VIRTUAL: a combinational loop
    makes pysim spin, while a merely overloaded machine does not consume the budget)"""
    import signal

    def onalarm(signum, frame):
        raise _Unsettled()

    try:
        old = signal.signal(signal.SIGVTALRM, onalarm)
    except ValueError:  # not in the main thread: no watchdog
        return fn(*args)
    signal.setitimer(signal.ITIMER_VIRTUAL, seconds)
    try:
        return fn(*args)
    finally:
        signal.setitimer(signal.ITIMER_VIRTUAL, 0)
        signal.signal(signal.SIGVTALRM, old)


def eval_spec(spec: dict, monitor: Callable, n_random: int, max_bits: int, vseed, only_vals=None, full_static=False,
              n_lean: int = 48, n_full: int = N_FULL_VALS) -> dict:
    """run the REAL code on one spec; lines for the Lean driver, the implementation's observation
    lines, the monitor's verdict, statistics.  The monitor sees every simulated valuation (all of them when
    the circuit has at most `max_bits` one-bit inputs); the Lean model is compared on `n_lean` of them
    (all-zeros, all-ones and a seeded sample), the first `N_FULL_VALS` with the per-cycle validator."""
    try:
        b = sg.build(spec)
    except sg.RealCodeError as e:
        # the library raised while a generated (well-formed) circuit was elaborated: a concrete failing input
        return {"lean_in": [], "impl_out": [], "reject": "raise", "reject_msg": str(e), "viol": None if spec.get("expect") == "any"
                else f"the real code raised while elaborating a well-formed circuit: {e}", "viol_val": None, "nvals": 0, "nlean": 0,
                "exhaustive": False, "names": {}, "stats": {}}
    out = {
        "lean_in": [sg.cfg_line(b, full_static)],
        "impl_out": [sg.summary_line(b, full_static)],
        "reject": b.reject,
        "reject_msg": b.reject_msg,
        "viol": None,
        "viol_val": None,
        "nvals": 0,
        "nlean": 0,
        "exhaustive": False,
        "names": {str(k): v for k, v in sorted(b.name_of.items())},
        "stats": {},
    }
    if b.reject is not None:
        r = monitor(b, [], [])
        if r:
            out["viol"] = r[0]
        return out
    if not b.info.get("merged_path_form", True):
        out["aux"] = "control paths of merged transactions do not have the form [[0,k],[0,j]]"
    rng = random.Random(f"vals/{vseed}")
    if only_vals is not None:
        vals, exh = [tuple(v) for v in only_vals], False
    else:
        vals, exh = sg.valuations(b.spec, rng, n_random, max_bits)
    try:
        obs = _with_watchdog(SETTLE_TIMEOUT_S + len(vals) // 40, sg.simulate, b, vals)
    except _Unsettled:
        # the real circuit does not settle in pysim: a combinational loop through run/ready/enable signals
        out["viol"] = (f"the elaborated circuit does not settle in pysim within {SETTLE_TIMEOUT_S} CPU seconds on the first valuations "
                       "(combinational loop through run/enable signals?)")
        return out
    out["nvals"] = len(vals)
    out["exhaustive"] = exh
    idx = list(range(len(vals)))
    if len(idx) > n_lean:
        keep = {0, len(idx) - 1} if exh else {0, 1}
        rest = [i for i in idx if i not in keep]
        rng.shuffle(rest)
        idx = sorted(keep | set(rest[: n_lean - len(keep)]))
    out["nlean"] = len(idx)
    for pos, k in enumerate(idx):
        (bits, dv), o = vals[k], obs[k]
        l, e = sg.val_line(bits, dv), sg.impl_line(b, o)
        if pos >= n_full:
            l, e = "w" + l[1:], e.replace(" hx=1 cons=1 hyp=1 ", " hx=- cons=- hyp=- ")
        out["lean_in"].append(l)
        out["impl_out"].append(e)
    r = monitor(b, vals, obs)
    if r:
        out["viol"], k = r[0], r[1]
        if k is not None:
            out["viol_val"] = [list(vals[k][0]), list(vals[k][1])]
            out["viol_obs"] = sg.impl_line(b, obs[k])
    out["stats"] = _stats(b, obs)
    return out


def _stats(b, obs) -> dict:
    run2 = any(sum(o.run[t] for t in b.post_trans) >= 2 for o in obs)
    return {
        "groups": len(b.groups), "bodies": len(b.post_bodies), "uses": len(b.top.uses),
        "merged_ran": any(any(o.run[t] for t in b.post_trans if t >= len(b.pre_bodies)) for o in obs),
        "two_trans_ran": run2,
        "derived_enable": any(not all(o.en[len(b.top.sites):]) for o in obs),
    }


def _work(args):
    gen, monitor, pid, index, seed, tier, n_random, max_bits, full_every, n_lean = args
    n_full = 3 if tier == "quick" else N_FULL_VALS
    t0 = time.time()
    spec = gen(pid, index, seed, tier)
    try:
        r = eval_spec(spec, monitor, n_random, max_bits, f"{pid}/{seed}/{index}", full_static=(index % full_every == 0), n_lean=n_lean, n_full=n_full)
    except Exception as e:  # noqa: BLE001
        import traceback

        r = {"error": f"{type(e).__name__}: {e}", "trace": traceback.format_exc()[-1800:]}
    r["spec"] = spec
    r["t_eval"] = time.time() - t0
    return r


# ------------------------------------------------------------------------------------ Lean side
def build_models(ctx: Check, tries: int = 4):
    for k in range(tries):
        res = run_cmd(["lake", "build", "TxV.Model.SimultaneousProto", "TxV.Proofs.Simultaneous"], LEAN, timeout=3000)
        if res.returncode == 0:
            return
        time.sleep(3 + 3 * k)  # other agents may be rebuilding shared modules: transient
    raise InfraError("Lean build of the C12/C13 model failed:\n" + (res.stdout + res.stderr)[-3000:])


def _lean_batch_retry(ctx: Check, driver: str, lines: list[str], tries: int = 3) -> list[str]:
    for k in range(tries):
        try:
            return ctx.lean_batch(driver, lines)
        except InfraError as e:
            if k == tries - 1 or not any(x in str(e) for x in ("does not exist", "failed to load header", "No such file")):
                raise
            time.sleep(3)
            build_models(ctx)
    return []


def lean_outputs(ctx: Check, driver: str, batches: list[list[str]], procs: int) -> list[list[str]]:
    procs = max(1, min(procs, len(batches)))
    chunks = [batches[i::procs] for i in range(procs)]

    def run(chunk):
        flat = [l for b in chunk for l in b]
        return _lean_batch_retry(ctx, driver, flat) if flat else []

    with ThreadPoolExecutor(procs) as ex:
        outs = list(ex.map(run, chunks))
    res: list = [None] * len(batches)
    for ci, chunk in enumerate(chunks):
        pos = 0
        for j, b in enumerate(chunk):
            res[ci + j * procs] = outs[ci][pos : pos + len(b)]
            pos += len(b)
    return res


# ------------------------------------------------------------------------------------ main entry
def run_simul(ctx: Check, pid: str, gen: Callable, monitor: Callable, directed: list[dict], witness_specs: Callable,
              nontrivial: Callable, n_quick: int, n_thorough: int, descriptor: Optional[Callable] = None):
    _descriptor = descriptor or (lambda spec: {"tag": spec.get("tag")})
    tm0 = time.time()
    for k in range(4):
        try:
            ctx.proof_stage()
            break
        except InfraError as e:
            transient = any(x in str(e) for x in ("failed to load header", "does not exist", "unexpected end of input", "No such file"))
            if k == 3 or not transient:
                raise
            time.sleep(5 + 5 * k)
    tm1 = time.time()
    build_models(ctx)
    tm2 = time.time()
    n_random = ctx.pick(96, 400)
    max_bits = ctx.pick(8, 12)
    n_lean = ctx.pick(32, 160)

    def replay_witness(w: dict) -> Optional[str]:
        specs = [w["spec"]] if "spec" in w else witness_specs(w["kind"])
        for s in specs:
            r = eval_spec(s, monitor, 64, 10, "witness", only_vals=w.get("valuations"))
            if r.get("viol"):
                return r["viol"]
        return None

    ctx.replay_findings(replay_witness)
    ctx.assumptions.append(
        "modelled, not verified: Amaranth If semantics for enable_call (the model takes enable_call inputs as the call "
        "enables; compared with the real enable_sig on every valuation); the per-cycle hypotheses of the theorems "
        "(Cycle/Eager of the core, LinkEn, DerEn, DefaultReady) are evaluated by the driver on every valuation")

    n = ctx.pick(n_quick, n_thorough)
    if os.environ.get("VERIF_CORE_N"):
        n = int(os.environ["VERIF_CORE_N"])
    procs = min(4, os.cpu_count() or 1) if ctx.quick else min(16, os.cpu_count() or 1)
    if os.environ.get("VERIF_PROCS"):
        procs = int(os.environ["VERIF_PROCS"])
    full_every = ctx.pick(6, 3)
    results: list[dict] = []
    # corpus and directed cases first
    pre: list[dict] = []
    for cdir in (CORPUS / pid,):
        if cdir.is_dir():
            for f in sorted(cdir.glob("*.json")):
                d = json.loads(f.read_text())
                d = d.get("spec", d)
                d.setdefault("tag", "corpus")
                pre.append(d)
    pre += directed
    for i, d in enumerate(pre):
        try:
            r = eval_spec(d, monitor, n_random, max_bits, f"{pid}/pre/{i}", full_static=True, n_lean=n_lean)
        except Exception as e:  # noqa: BLE001
            import traceback

            raise InfraError(f"harness error on directed case {d.get('tag')}: {type(e).__name__}: {e}\n{traceback.format_exc()[-1500:]}")
        r["spec"], r["t_eval"] = d, 0
        results.append(r)
    jobs = [(gen, monitor, pid, i, ctx.seed, ctx.tier, n_random, max_bits, full_every, n_lean) for i in range(n)]
    # the Lean driver is started on the cases that are finished while the real code still runs on the rest
    lean_procs = ctx.pick(min(3, procs), procs)
    ex = ThreadPoolExecutor(lean_procs)
    futs: list = []  # (first index, number of cases, future)

    def submit(first: int, batch: list):
        if batch and not any("error" in r for r in batch):
            flat = [l for r in batch for l in r["lean_in"]]
            futs.append((first, len(batch), ex.submit(_lean_batch_retry, ctx, pid, flat)))

    # (every start of `lean --run` costs seconds - much more on a loaded machine -, so few, large batches)
    n_chunks = ctx.pick(2, 2 * procs)
    if procs > 1:
        with mp.get_context("fork").Pool(procs) as pool:
            it = pool.imap(_work, jobs, chunksize=max(1, n // (procs * 6)))
            step = max(1, (n + n_chunks - 1) // n_chunks)
            first = 0
            buf: list = list(results)
            results = []
            for r in it:
                buf.append(r)
                if len(buf) - (0 if first else len(pre)) >= step:
                    submit(first, buf)
                    results += buf
                    first = len(results)
                    buf = []
            submit(first, buf)
            results += buf
    else:
        results += [_work(j) for j in jobs]
        submit(0, results)
    tm3 = time.time()
    errors = [r for r in results if "error" in r]
    if errors:
        ex.shutdown(wait=False)
        raise InfraError(f"harness error on spec {errors[0]['spec'].get('tag')}: {errors[0]['error']}\n{errors[0]['trace']}")

    # ---- monitor verdicts
    fails = [r for r in results if r["viol"] and not ctx.is_known(_descriptor(r["spec"]))]
    ctx.count("failures_covered_by_known_finding", sum(1 for r in results if r["viol"]) - len(fails))
    fails.sort(key=lambda r: len(json.dumps(r["spec"])))
    for r in fails[:3]:
        ctx.violation(
            f"{r['viol']}",
            {"spec": r["spec"], "valuations": [r["viol_val"]] if r.get("viol_val") is not None else None,
             "impl_observation": r.get("viol_obs") or (r["impl_out"] or [r.get("reject_msg", "")])[0], "names": r["names"]},
        )
    if fails:
        ctx.count("monitor_failures", len(fails))

    # ---- Lean model on the same cases
    outs: list = [None] * len(results)
    for first, cnt, fut in futs:
        flat = fut.result()
        pos = 0
        for k in range(first, first + cnt):
            m = len(results[k]["lean_in"])
            outs[k] = flat[pos : pos + m]
            pos += m
    ex.shutdown(wait=False)
    tm4 = time.time()
    ctx.note(f"wall: proof stage {tm1 - tm0:.1f}s, model build {tm2 - tm1:.1f}s, real code (procs={procs}) {tm3 - tm2:.1f}s, "
             f"Lean driver ({sum(len(r['lean_in']) for r in results)} lines, procs={lean_procs}) {tm4 - tm3:.1f}s")
    ndiv = 0
    for r, mo in zip(results, outs):
        d = first_diff(r["impl_out"], mo)
        ctx.case(json.dumps(r["spec"], sort_keys=True), nontrivial=nontrivial(r), n=max(1, r["nvals"]))
        _count(ctx, r)
        if len(ctx.samples) < 3 and r["nvals"]:
            ctx.sample({"tag": r["spec"].get("tag"), "summary": r["impl_out"][0], "valuation_lines": r["lean_in"][1:3],
                        "impl": r["impl_out"][1:3]})
        if d is None and r.get("aux"):
            d, mo = 0, [f"corr:merged-paths: {r['aux']}"]
        if d is None:
            ctx.traces_validated += 1
            continue
        ndiv += 1
        ctx.count("divergences")
        if ndiv > 2 or fails:
            continue
        detail = {
            "spec": r["spec"], "line_index": d,
            "input_line": r["lean_in"][d][:300] if d < len(r["lean_in"]) else None,
            "impl": r["impl_out"][d] if d < len(r["impl_out"]) else None,
            "model": mo[d] if d < len(mo) else None,
            "names": r["names"],
        }

        def search(r=r):
            t_end = time.time() + ctx.pick(40, 300)
            rr = eval_spec(r["spec"], monitor, 600, 11, "search")
            if rr["viol"]:
                return rr["viol"], {"spec": r["spec"], "valuations": [rr.get("viol_val")], "impl_observation": rr.get("viol_obs")}
            extra = [(gen, monitor, pid, i, ctx.seed, ctx.tier, n_random, max_bits, 10**9, 0) for i in range(n, n + ctx.pick(200, 800))]
            with mp.get_context("fork").Pool(procs) as pool:
                for w in pool.imap_unordered(_work, extra, chunksize=2):
                    ctx.count("search_cases")
                    if w.get("viol") and not ctx.is_known(_descriptor(w["spec"])):
                        return w["viol"], {"spec": w["spec"], "valuations": [w.get("viol_val")], "impl_observation": w.get("viol_obs")}
                    if time.time() > t_end:
                        break
            return None

        ctx.divergence(f"corr:{pid.lower()}-simultaneous", detail, search)
    ctx.exhaustive = False
    ctx.note(f"{len(results)} cases: real elaboration+pysim+monitor {sum(r['t_eval'] for r in results):.1f}s (summed over workers)")


def _count(ctx: Check, r: dict):
    ctx.count("cases")
    tag = r["spec"].get("tag", "?")
    ctx.count(f"stream_{tag}")
    if r["reject"] is not None:
        ctx.count(f"reject_{r['reject']}")
        return
    ctx.count("accepted")
    ctx.count("valuations_simulated_and_monitored", r["nvals"])
    ctx.count("valuations_compared_with_model", r.get("nlean", 0))
    if r.get("exhaustive"):
        ctx.count("cases_all_valuations")
    s = r["stats"]
    for k in ("merged_ran", "two_trans_ran", "derived_enable"):
        if s.get(k):
            ctx.count(f"with_{k}")
    ctx.count(f"groups_{min(s.get('groups', 0), 8)}")
    for k in sorted(_spec_features(r["spec"])):
        ctx.count(f"with_{k}")


def _spec_features(spec: dict) -> set:
    """which variants of the uses a case contains (for the distribution in the evidence)"""
    out: set = set()

    def walk(block, depth, in_method):
        for s in block:
            if s["k"] == "cond":
                out.add("condition_in_method" if in_method else "condition_in_transaction")
                out.add("priority" if s["prio"] else "no_priority")
                out.add("nonblocking" if s["nb"] else "blocking")
                conds = [b["c"] for b in s["branches"]]
                out.add("default_branch" if conds and conds[-1] is None else "no_default_branch")
                if len(set(c for c in conds if c is not None)) < len([c for c in conds if c is not None]):
                    out.add("branches_sharing_a_condition")
                if depth > 0:
                    out.add("nested_condition")
                callees = [x["m"] for b in s["branches"] for x in b["block"] if x["k"] == "call"]
                if len(set(callees)) < len(callees):
                    out.add("callee_shared_by_branches")
                for b in s["branches"]:
                    walk(b["block"], depth + 1, in_method)
            elif s["k"] == "call" and s.get("en") is not None:
                out.add("conditional_call")
            elif s["k"] in ("if", "switch", "fsm"):
                out.add(f"calls_inside_{s['k']}")
                for blk in sg.inner_blocks(s):
                    walk(blk, depth, in_method)

    for it, guard in sg.flat_items(spec):
        walk(it["block"], 0, it["k"] == "method")
        if guard is not None:
            out.add("body_defined_under_control_structure")
    for it in spec["items"]:
        if it["k"] in ("if", "switch", "fsm"):
            out.add(f"callers_under_{it['k']}")
    called = {x["m"] for it, _ in sg.flat_items(spec) for x in it["block"] if x["k"] == "call"}
    for c in spec.get("connects", []):
        if (c["name"] + ".write" in called) != (c["name"] + ".read" in called):
            out.add("connect_end_without_caller")
    for c in spec.get("connects", []):
        out.add("connect_with_reverse_data" if c["rw"] else "connect")
    if spec.get("simul"):
        out.add("plain_simultaneous")
    return out


def replay_simul(ctx: Check, pid: str, body: dict, monitor: Callable) -> Optional[str]:
    spec = body.get("spec") or body.get("divergence", {}).get("spec")
    if spec is None:
        return None
    vals = body.get("valuations")
    r = eval_spec(spec, monitor, 200, 11, "replay", only_vals=vals if vals and vals[0] is not None else None)
    if r.get("viol"):
        return r["viol"]
    if vals and vals[0] is not None:
        # the manager creates merged transactions while iterating Python sets of objects: where priorities are
        # undefined the winner among admissible branches may differ between runs, so the recorded valuation need
        # not fail again; look at all / many valuations of the recorded circuit
        r2 = eval_spec(spec, monitor, 600, 12, "replay-all")
        if r2.get("viol"):
            return r2["viol"]
    build_models(ctx)
    out = _lean_batch_retry(ctx, pid, r["lean_in"])
    d = first_diff(r["impl_out"], out)
    if d is not None:
        return f"model and implementation differ at line {d}: impl={r['impl_out'][d]} model={out[d]}"
    return None
