"""Two-caller scenarios for the allocators (C25, C26, C27): a wrapper owning the real component and exposing
chosen methods twice, so that `SimpleTestCircuit` puts two independent AdapterTrans on the *same* real method.
An exclusive method must serve at most one of them per cycle; a method that was (accidentally) made
nonexclusive serves both, which a single-caller harness cannot see."""

from __future__ import annotations


def make_two(inner, twice: dict, once: dict):
    """`twice`: attribute name -> real Method (exposed as a list of two references to it);
    `once`: attribute name -> real Method exposed as is."""
    from amaranth import Elaboratable
    from transactron import TModule

    class TwoCallers(Elaboratable):
        def __init__(self):
            self.inner = inner
            for name, meth in twice.items():
                setattr(self, name, [meth, meth])
            for name, meth in once.items():
                setattr(self, name, meth)

        def elaborate(self, platform):
            m = TModule()
            m.submodules.inner = self.inner
            return m

    return TwoCallers()


def first_of(order, attempts, runnable=lambda v: True):
    """the attempt the scheduler serves: first caller in priority `order` whose call is runnable; if none is
    runnable the first attempted one (it will not execute either); None if nobody attempts"""
    for k in order:
        if attempts[k] is not None and runnable(attempts[k]):
            return attempts[k]
    for k in order:
        if attempts[k] is not None:
            return attempts[k]
    return None


def executed(res: dict, name: str):
    """(value, doubled): result of the caller of `name` that executed (lowest index), and whether both did"""
    done = [res[(name, k)] for k in (0, 1)]
    ex = [v for v in done if v is not None]
    return (ex[0] if ex else None), len(ex) == 2


def pair(tok: str, conv=int):
    """`x|y` -> [x, y] with `-` -> None"""
    return [None if v == "-" else conv(v) for v in tok.split("|")]


def fmt_pair(vals) -> str:
    return "|".join("-" if v is None else str(v) for v in vals)
