"""Entry point: python -m txv.run Cxx [--tier quick|thorough] [--replay FILE]"""

from __future__ import annotations

import argparse
import importlib
import json
import sys
import traceback
import warnings

warnings.filterwarnings("ignore")
# Large generated designs (thorough tier) give expression trees deeper than CPython's default limit of 1000 frames;
# hitting that limit is a resource limit of the harness process, not an observation about /repo.
sys.setrecursionlimit(max(sys.getrecursionlimit(), 30000))

from .common import Check, InfraError  # noqa: E402


def main(argv=None) -> int:
    ap = argparse.ArgumentParser()
    ap.add_argument("pid")
    ap.add_argument("--tier", default=None)
    ap.add_argument("--seed", type=int, default=None)
    ap.add_argument("--replay", default=None)
    a = ap.parse_args(argv)
    pid = a.pid.upper()
    ctx = Check(pid, a.tier, a.seed)
    try:
        mod = importlib.import_module(f"txv.props.{pid.lower()}")
        if a.replay:
            body = json.loads(open(a.replay).read())
            if not hasattr(mod, "replay"):
                print(f"[{pid}] no replay function; replay body:\n{json.dumps(body, indent=1)[:4000]}")
                return 2
            failure = mod.replay(ctx, body.get("replay", body))
            if failure:
                print(f"VIOLATION property={pid} replay={a.replay}")
                print(f"  {failure}")
                return 1
            print(f"[{pid}] replay passes")
            return 0
        mod.run(ctx)
        return ctx.finish()
    except InfraError as e:
        print(f"[{pid}] INFRASTRUCTURE ERROR: {e}", file=sys.stderr)
        return 2
    except Exception:  # noqa: BLE001
        traceback.print_exc()
        print(f"[{pid}] HARNESS EXCEPTION (exit 2)", file=sys.stderr)
        return 2


if __name__ == "__main__":
    sys.exit(main())
